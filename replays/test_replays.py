"""Plain pytest replay of stored artefacts, without any explorer.
replays/regress/*.json are counterexamples of defects that were repaired: the property must hold on each of them.
Run: cd /verif && PYTHONHASHSEED=0 /venv/bin/python -m pytest -q replays/test_replays.py"""
import glob
import json
import os
import sys

import pytest

ROOT = os.path.dirname(os.path.dirname(os.path.abspath(__file__)))
sys.path.insert(0, ROOT)
FILES = sorted(glob.glob(os.path.join(ROOT, "replays", "regress", "*.json")))


@pytest.mark.parametrize("path", FILES, ids=[os.path.basename(f) for f in FILES])
def test_regression_replay(path):
    from mc.run import _quiet, load

    _quiet()
    rec = json.load(open(path))
    violations = load(rec["property"]).replay(rec["case"])
    assert violations == [], violations[:1]
