"""Runner: ./check <ID> <quick|thorough> [--replay file]

Every property module in mc.props exposes

    RULE        : str   -- how cases are enumerated, what "non-trivial" means
    BOUNDS      : dict  -- tier -> description of bounds
    groups(tier, seed) -> list of JSON-able group descriptors (deterministic)
    run_group(group, tier) -> Stats  (explores every case of the group on the
                                      real implementation, compares with the
                                      reference model)
    replay(case) -> list[violation dict]   (re-executes ONE fine-grained case)

The runner shards groups over forked workers, merges the counters, confirms
every distinct violation by replaying it (twice in-process, once in a fresh
process), matches confirmed violations against KNOWN_FINDINGS.json and writes
evidence/<ID>.json.
"""
import importlib
import json
import os
import subprocess
import sys
import time
import traceback

ROOT = os.path.dirname(os.path.dirname(os.path.abspath(__file__)))


def _ensure_env():
    if os.environ.get("PYTHONHASHSEED") is None:
        os.environ["PYTHONHASHSEED"] = "0"
        os.environ.setdefault("OMP_NUM_THREADS", "1")
        os.execv(sys.executable, [sys.executable, "-W", "ignore", "-m", "mc.run"] + sys.argv[1:])


def _quiet():
    import logging
    import warnings

    warnings.filterwarnings("ignore")
    logging.disable(logging.CRITICAL)
    try:
        from pgmpy.global_vars import config

        config.set_show_progress(False)
    except Exception:
        pass
    try:
        import torch

        torch.set_num_threads(1)
    except Exception:
        pass


def load(pid):
    return importlib.import_module("mc.props." + pid.lower())


def _worker(args):
    pid, group, tier = args
    import mc.stats
    from mc.stats import Stats

    mc.stats.CURRENT_PID = pid

    mod = load(pid)
    try:
        st = mod.run_group(group, tier)
    except Exception:
        st = Stats()
        st.harness_errors.append({"group": group, "trace": traceback.format_exc()[-2000:]})
    return st.pack()


def explore(pid, tier, seed, nproc=None):
    from mc.stats import Stats

    mod = load(pid)
    import mc.stats

    mc.stats.CURRENT_PID = pid
    if hasattr(mod, "custom_explore"):
        return mod, mod.custom_explore(tier, seed)
    groups = list(mod.groups(tier, seed))
    total = Stats()
    nproc = nproc or int(os.environ.get("VERIF_PROCS", "16"))
    if nproc <= 1 or len(groups) <= 1:
        for g in groups:
            total.merge(Stats.unpack(_worker((pid, g, tier))))
    else:
        import multiprocessing as mp

        ctx = mp.get_context("fork")
        with ctx.Pool(min(nproc, len(groups))) as pool:
            for packed in pool.imap_unordered(_worker, [(pid, g, tier) for g in groups], chunksize=1):
                total.merge(Stats.unpack(packed))
    total.groups = len(groups)
    return mod, total


def _vkey(v):
    return json.dumps({"site": v.get("site"), "kind": v.get("kind"), "case": v.get("case")}, sort_keys=True, default=str)


def confirm(pid, mod, v):
    """Replay one violation twice in-process; must reproduce identically."""
    obs = []
    for _ in range(2):
        try:
            r = mod.replay(v["case"])
        except Exception:
            r = [{"site": "replay", "kind": "harness-exception", "detail": traceback.format_exc()[-1500:]}]
        obs.append(json.dumps([(x.get("site"), x.get("kind"), x.get("observed"), x.get("expected")) for x in r], sort_keys=True, default=str))
    return obs[0] == obs[1] and obs[0] != "[]", obs


def main(argv):
    _ensure_env()
    if len(argv) < 2:
        print("usage: check <ID> <quick|thorough> | check <ID> --replay <file>")
        return 2
    pid = argv[0].upper()
    sys.path.insert(0, ROOT)
    os.chdir(ROOT)
    _quiet()
    from mc import findings
    from mc.evidence import write_evidence

    if argv[1] == "--replay":
        rec = json.load(open(argv[2]))
        mod = load(pid)
        vs = mod.replay(rec["case"])
        if "--json" in argv:
            print(json.dumps(vs, default=str, sort_keys=True))
            return 1 if vs else 0
        if not vs:
            print(f"replay {argv[2]}: property {pid} holds on this case")
            return 0
        rc = 0
        for v in vs:
            kf = findings.match(pid, v)
            tag = f"KNOWN-FINDING: property={pid} {kf['id']} {kf['what']}" if kf else f"VIOLATION property={pid} replay={argv[2]}"
            rc = rc or (0 if kf else 1)
            print(tag)
            print("  site    :", v.get("site"), "/", v.get("kind"))
            print("  case    :", json.dumps(v.get("case"), default=str)[:1500])
            print("  observed:", json.dumps(v.get("observed"), default=str)[:1500])
            print("  expected:", json.dumps(v.get("expected"), default=str)[:1500])
            if v.get("detail"):
                print("  detail  :", str(v.get("detail"))[:1500])
        return rc

    tier = argv[1]
    assert tier in ("quick", "thorough"), tier
    seed = int(os.environ.get("VERIF_SEED", "0") or 0)
    t0 = time.time()
    mod, st = explore(pid, tier, seed)
    wall_explore = time.time() - t0

    if st.harness_errors:
        for e in st.harness_errors[:3]:
            print("HARNESS-ERROR", json.dumps(e, default=str)[:3000])
        write_evidence(pid, tier, seed, mod, st, time.time() - t0, 0, [], harness_error=True)
        return 2

    # de-duplicate, confirm, classify
    seen = {}
    for v in st.violations:
        seen.setdefault(_vkey(v), v)
    known, new, flaky = {}, [], []
    budget = int(os.environ.get("VERIF_CONFIRM", "40"))
    classes = {}
    for k, v in seen.items():
        kf = findings.match(pid, v)
        cls = (kf["id"] if kf else None, v.get("site"), v.get("kind"))
        classes.setdefault(cls, []).append(v)
    for cls, vs in classes.items():
        # confirm the first (minimal: enumeration is simplest-first) of each class
        v = vs[0]
        ok, obs = (True, None)
        if budget > 0:
            budget -= 1
            ok, obs = confirm(pid, mod, v)
        if not ok:
            flaky.append((v, obs))
            continue
        if cls[0]:
            known.setdefault(cls[0], []).extend(vs)
        else:
            new.extend(vs)
    if flaky:
        for v, obs in flaky[:5]:
            print("NONDETERMINISM", json.dumps(v, default=str)[:2000], obs)
        write_evidence(pid, tier, seed, mod, st, time.time() - t0, 0, [], harness_error=True)
        return 2

    rc = 0
    for fid, vs in sorted(known.items()):
        kf = findings.by_id(fid)
        print(f"KNOWN-FINDING: property={pid} {fid} {kf['what']} (matched {len(vs)} recorded cases this run)")
    rdir = os.environ.get("VERIF_REPLAY_DIR") or "replays"
    os.makedirs(os.path.join(ROOT, rdir, pid), exist_ok=True)
    written = []
    shown = {}
    for v in new:
        cls = (v.get("site"), v.get("kind"))
        shown[cls] = shown.get(cls, 0) + 1
        if shown[cls] > 3:
            continue
        import hashlib

        h = hashlib.sha1(_vkey(v).encode()).hexdigest()[:12]
        path = os.path.join(rdir, pid, h + ".json")
        with open(os.path.join(ROOT, path), "w") as f:
            json.dump({"property": pid, "case": v["case"], "site": v.get("site"), "kind": v.get("kind"),
                       "observed": v.get("observed"), "expected": v.get("expected"), "detail": v.get("detail")},
                      f, indent=1, default=str, sort_keys=True)
        written.append(path)
        # fresh-process replay for the first artefact of every class
        if shown[cls] == 1:
            try:
                p = subprocess.run([os.path.join(ROOT, "check"), pid, "--replay", path, "--json"],
                                   capture_output=True, text=True, timeout=600)
                if p.returncode != 1:
                    print("NONDETERMINISM fresh-process replay did not reproduce", path, p.stdout[-500:], p.stderr[-500:])
                    write_evidence(pid, tier, seed, mod, st, time.time() - t0, 0, [], harness_error=True)
                    return 2
            except subprocess.TimeoutExpired:
                pass
        print(f"VIOLATION property={pid} replay={path}")
        print(f"  site={v.get('site')} kind={v.get('kind')} case={json.dumps(v.get('case'), default=str)[:600]}")
        print(f"  observed={json.dumps(v.get('observed'), default=str)[:400]} expected={json.dumps(v.get('expected'), default=str)[:400]}")
        rc = 1
    nviol = len(new)
    write_evidence(pid, tier, seed, mod, st, time.time() - t0, nviol, sorted(known))
    print(f"{pid} {tier}: groups={st.groups} evaluations={st.evals} compared={st.compared} states={st.states} "
          f"transitions={st.transitions} distinct_nontrivial={st.nontrivial} outcomes={len(st.outcomes)} "
          f"violations={nviol} known={sum(len(v) for v in known.values())} caps={len(st.caps)} wall={time.time()-t0:.1f}s")
    return rc


if __name__ == "__main__":
    sys.exit(main(sys.argv[1:]))
