"""Least fixed point of the semi-graphoid axioms on set-valued triples."""
from itertools import combinations


def canon(X, Y, Z):
    return (frozenset((frozenset(X), frozenset(Y))), frozenset(Z))


def triples_of(c):
    (pair, Z) = c
    a, b = tuple(pair) if len(pair) == 2 else (next(iter(pair)),) * 2
    return [(a, b, Z), (b, a, Z)]


def nonempty_proper_subsets(s):
    s = sorted(s, key=repr)
    for r in range(1, len(s)):
        for c in combinations(s, r):
            yield frozenset(c)


def closure(stmts, rule="exact"):
    """stmts: iterable of (X, Y, Z) with X, Y non-empty, pairwise disjoint.
    returns set of canonical statements.  rule="f05" is NOT the reference: it is the
    model of the recorded defect F05 (contraction fires when Y and Z are disjoint proper
    subsets of the first statement's conditioning set), used only to recognise that defect."""
    allst = set(canon(*s) for s in stmts)
    frontier = set(allst)
    while frontier:
        new = set()
        for c in frontier:
            for X, Y, Z in triples_of(c):
                # decomposition and weak union on Y
                for W in nonempty_proper_subsets(Y):
                    new.add(canon(X, Y - W, Z))
                    new.add(canon(X, Y - W, Z | W))
        # contraction between any pair involving the frontier
        cur = allst | new
        for c1 in cur:
            for c2 in cur:
                if c1 not in frontier and c2 not in frontier and c1 not in new and c2 not in new:
                    continue
                for X1, W, YZ in triples_of(c1):
                    for X2, Y, Z in triples_of(c2):
                        if rule == "exact":
                            fire = X1 == X2 and Y and (Y | Z) == YZ and not (Y & Z)
                        else:
                            fire = X1 == X2 and Y < YZ and Z < YZ and not (Y & Z)
                        if fire:
                            new.add(canon(X1, W | Y, Z))
        frontier = new - allst
        allst |= frontier
    return allst


def all_statements(vars):
    """all canonical statements with pairwise disjoint X, Y (non-empty), Z over vars"""
    vars = list(vars)
    out = set()
    n = len(vars)
    for code in range(4 ** n):
        X, Y, Z = set(), set(), set()
        c = code
        for v in vars:
            r = c % 4
            c //= 4
            if r == 1:
                X.add(v)
            elif r == 2:
                Y.add(v)
            elif r == 3:
                Z.add(v)
        if X and Y:
            out.add(canon(X, Y, Z))
    return sorted(out, key=lambda c: (sum(len(s) for s in c[0]) + len(c[1]), repr(c)))
