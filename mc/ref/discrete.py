"""Reference model for discrete networks and factors: nested loops + Fractions.

Deliberately boring.  Shares no code with pgmpy / numpy einsum.
Variables are abstract ids (ints 0..n-1); states are indices 0..card-1.
Labelings (names, state names) live in mc.build.
"""
from fractions import Fraction as F
from itertools import product


def assignments(cards):
    return product(*[range(c) for c in cards])


class RefFactor:
    """function from assignments of `vars` (tuple of ids) to numbers"""

    def __init__(self, vars, card, table):
        self.vars = tuple(vars)
        self.card = dict(card)  # id -> cardinality (at least for vars)
        self.table = dict(table)  # tuple(state idx per var in self.vars) -> value

    @staticmethod
    def const(v=F(1)):
        return RefFactor((), {}, {(): v})

    def get(self, asg):  # asg: dict id -> state
        return self.table[tuple(asg[v] for v in self.vars)]

    def _binop(self, o, fn):
        vs = list(self.vars) + [v for v in o.vars if v not in self.vars]
        card = dict(self.card)
        card.update(o.card)
        t = {}
        for st in assignments([card[v] for v in vs]):
            a = dict(zip(vs, st))
            t[st] = fn(self.get(a), o.get(a))
        return RefFactor(vs, card, t)

    def product(self, o):
        return self._binop(o, lambda x, y: x * y)

    def add(self, o):
        return self._binop(o, lambda x, y: x + y)

    def divide(self, o):
        def d(x, y):
            if y == 0:
                return F(0) if x == 0 else float("inf")
            return x / y
        return self._binop(o, d)

    def marginalize(self, vs, op="sum"):
        keep = [v for v in self.vars if v not in vs]
        t = {}
        for st, val in self.table.items():
            k = tuple(s for v, s in zip(self.vars, st) if v in keep)
            if k not in t:
                t[k] = val
            elif op == "sum":
                t[k] = t[k] + val
            else:
                t[k] = max(t[k], val)
        return RefFactor(keep, self.card, t)

    def reduce(self, ev):  # ev: dict id->state
        keep = [v for v in self.vars if v not in ev]
        t = {}
        for st, val in self.table.items():
            if all(ev.get(v, s) == s for v, s in zip(self.vars, st)):
                t[tuple(s for v, s in zip(self.vars, st) if v in keep)] = val
        return RefFactor(keep, self.card, t)

    def total(self):
        return sum(self.table.values())

    def normalize(self):
        z = self.total()
        return RefFactor(self.vars, self.card, {k: v / z for k, v in self.table.items()})

    def reorder(self, vs):
        vs = tuple(vs)
        assert sorted(vs) == sorted(self.vars)
        idx = [self.vars.index(v) for v in vs]
        return RefFactor(vs, self.card, {tuple(k[i] for i in idx): v for k, v in self.table.items()})

    def as_dict(self):
        """canonical: frozenset-free dict keyed by tuple of (var,state) sorted by var"""
        out = {}
        for k, v in self.table.items():
            out[tuple(sorted(zip(self.vars, k)))] = v
        return out


class RefBN:
    def __init__(self, n, parents, card, cpt):
        """parents: {v: [ordered parent ids]}, card: {v: int},
        cpt: {v: {parent-state-tuple (in parents[v] order): [P(v=0..)]}}"""
        self.n = n
        self.nodes = list(range(n))
        self.parents = {v: list(parents.get(v, [])) for v in self.nodes}
        self.card = dict(card)
        self.cpt = cpt

    def edges(self):
        return [(p, v) for v in self.nodes for p in self.parents[v]]

    def p(self, v, s, asg):
        return self.cpt[v][tuple(asg[p] for p in self.parents[v])][s]

    def cpd_factor(self, v):
        vs = [v] + self.parents[v]
        t = {}
        for st in assignments([self.card[x] for x in vs]):
            t[st] = self.cpt[v][tuple(st[1:])][st[0]]
        return RefFactor(vs, self.card, t)

    def joint(self):
        t = {}
        for st in assignments([self.card[v] for v in self.nodes]):
            a = dict(zip(self.nodes, st))
            w = F(1)
            for v in self.nodes:
                w *= self.p(v, a[v], a)
                if w == 0:
                    break
            t[st] = w
        return RefFactor(self.nodes, self.card, t)

    def topo(self):
        order, done = [], set()
        while len(order) < self.n:
            for v in self.nodes:
                if v not in done and all(p in done for p in self.parents[v]):
                    order.append(v)
                    done.add(v)
        return order

    def children(self, v):
        return [c for c in self.nodes if v in self.parents[c]]

    def do(self, xs):
        """truncated factorisation: do-nodes lose parents; their CPD is the
        marginalised-and-renormalised column (pgmpy convention) -- only used
        for structure; for P(.|do(x)) use reduce on the joint of this net"""
        parents = {v: ([] if v in xs else list(self.parents[v])) for v in self.nodes}
        cpt = {}
        for v in self.nodes:
            if v in xs:
                cols = list(self.cpt[v].values())
                s = [sum(c[i] for c in cols) for i in range(self.card[v])]
                z = sum(s)
                cpt[v] = {(): [x / z for x in s]}
            else:
                cpt[v] = self.cpt[v]
        return RefBN(self.n, parents, self.card, cpt)


def posterior(joint, query, evidence, soft=None):
    """P(query | evidence) from a RefFactor joint. evidence dict id->state.
    soft: list of (var, [likelihood per state]) virtual evidence.
    returns (RefFactor over query normalised, P(e)) or (None, 0)"""
    f = joint
    if soft:
        for v, lik in soft:
            lf = RefFactor((v,), {v: len(lik)}, {(i,): lik[i] for i in range(len(lik))})
            f = f.product(lf)
    f = f.reduce(evidence)
    rest = [v for v in f.vars if v not in query]
    m = f.marginalize(rest)
    z = m.total()
    if z == 0:
        return None, z
    return m.normalize().reorder(query), z
