"""Reference graph theory on small DAGs (nodes 0..n-1, edge list): definitions
by explicit enumeration of trails.  No networkx, no pgmpy."""
from itertools import combinations


class G:
    def __init__(self, n, edges):
        self.n = n
        self.edges = set(tuple(e) for e in edges)
        self.pa = {v: set() for v in range(n)}
        self.ch = {v: set() for v in range(n)}
        for a, b in self.edges:
            self.pa[b].add(a)
            self.ch[a].add(b)
        self.adj = {v: self.pa[v] | self.ch[v] for v in range(n)}
        self._desc = {}
        self._trails = {}

    def desc(self, v):
        """descendants including v"""
        if v not in self._desc:
            seen, st = {v}, [v]
            while st:
                x = st.pop()
                for c in self.ch[x]:
                    if c not in seen:
                        seen.add(c)
                        st.append(c)
            self._desc[v] = seen
        return self._desc[v]

    def anc(self, vs):
        """ancestors including the nodes themselves"""
        seen, st = set(vs), list(vs)
        while st:
            x = st.pop()
            for p in self.pa[x]:
                if p not in seen:
                    seen.add(p)
                    st.append(p)
        return seen

    def trails(self, x, y):
        key = (x, y)
        if key not in self._trails:
            out = []

            def rec(path):
                last = path[-1]
                if last == y:
                    out.append(tuple(path))
                    return
                for w in self.adj[last]:
                    if w not in path:
                        path.append(w)
                        rec(path)
                        path.pop()
            rec([x])
            self._trails[key] = out
        return self._trails[key]

    def active(self, trail, Z):
        for i in range(1, len(trail) - 1):
            a, b, c = trail[i - 1], trail[i], trail[i + 1]
            collider = (a, b) in self.edges and (c, b) in self.edges
            if collider:
                if not (self.desc(b) & Z):
                    return False
            elif b in Z:
                return False
        return True

    def dconnected(self, x, y, Z):
        Z = set(Z)
        return any(self.active(t, Z) for t in self.trails(x, y))

    def reachable(self, x, Z):
        """nodes d-connected to x given Z (x and y outside Z), plus x itself"""
        Z = set(Z)
        return {y for y in range(self.n) if y not in Z and (y == x or self.dconnected(x, y, Z))}

    def dsep_sets(self, X, Y, Z):
        return all(not self.dconnected(x, y, Z) for x in X for y in Y)

    def moral_edges(self):
        e = {frozenset(x) for x in self.edges}
        for v in range(self.n):
            for a, b in combinations(sorted(self.pa[v]), 2):
                e.add(frozenset((a, b)))
        return e

    def skeleton(self):
        return {frozenset(x) for x in self.edges}

    def vstructs(self):
        out = set()
        for v in range(self.n):
            for a, b in combinations(sorted(self.pa[v]), 2):
                if b not in self.adj[a]:
                    out.add((frozenset((a, b)), v))
        return out

    def markov_blanket(self, v):
        mb = set(self.pa[v]) | set(self.ch[v])
        for c in self.ch[v]:
            mb |= self.pa[c]
        mb.discard(v)
        return mb

    def topo(self):
        order, done = [], set()
        while len(order) < self.n:
            for v in range(self.n):
                if v not in done and self.pa[v] <= done:
                    order.append(v)
                    done.add(v)
        return order


def usep(n, uedges, x, y, Z):
    """x and y separated by Z in an undirected graph (edges as frozensets)"""
    seen, st = {x}, [x]
    while st:
        a = st.pop()
        for e in uedges:
            if a in e:
                (b,) = e - {a}
                if b not in seen and b not in Z:
                    seen.add(b)
                    st.append(b)
    return y not in seen
