"""Value alphabets and finite indexed families of reference networks."""
from fractions import Fraction as F
from itertools import product

from mc.gen.dags import parents_of
from mc.ref.discrete import RefBN

h, q, e = F(1, 2), F(1, 4), F(1, 8)
ALPH = {
    1: [(F(1),)],
    2: [(h, h), (q, 3 * q), (F(1), F(0)), (3 * q, q), (F(0), F(1)), (e, 7 * e)],
    3: [(h, q, q), (q, q, h), (F(1), F(0), F(0)), (F(0), h, h), (q, h, q), (e, e, 3 * q)],
    4: [(q, q, q, q), (h, q, e, e), (F(0), h, F(0), h), (e, e, q, h)],
}
# non-dyadic columns whose float entries do not add up to exactly 1.0 and whose LAST state can be impossible
ND = {
    1: [(F(1),)],
    2: [(F(3, 10), F(7, 10)), (F(1), F(0)), (F(1, 10), F(9, 10)), (F(7, 10), F(3, 10))],
    3: [(F(3, 10), F(7, 10), F(0)), (F(1, 10), F(2, 10), F(7, 10)), (F(6, 10), F(4, 10), F(0)), (F(1, 3), F(1, 3), F(1, 3))],
    # float sums: 2/10+7/10+1/10 = 1 - 1.1e-16 ; 9/28+18/28+1/28 = 1 + 2.2e-16 (residual goes somewhere when a sampler "adjusts")
    4: [(F(2, 10), F(7, 10), F(1, 10), F(0)), (F(9, 28), F(18, 28), F(1, 28), F(0)), (F(1, 6), F(4, 6), F(1, 6), F(0)), (F(3, 10), F(3, 10), F(4, 10), F(0))],
}
PRIMES = [2, 3, 5, 7, 11, 13, 17, 19, 23, 29, 31, 37, 41, 43, 47, 53, 59, 61, 67, 71, 73, 79, 83, 89, 97, 101, 103,
          107, 109, 113, 127, 131, 137, 139, 149, 151, 157, 163, 167, 173, 179, 181, 191, 193, 197, 199, 211, 223,
          227, 229, 233, 239, 241, 251, 257, 263, 269, 271, 277, 281, 283, 293, 307, 311, 313, 317, 331, 337, 347]


def ncols(pa, card):
    k = 1
    for p in pa:
        k *= card[p]
    return k


def bn_from_desc(d):
    """d: {n, edges, card, cols}; cols is one of
       {"idx": [[alphabet index per column] per node]}
       {"fam": [a, b, k]}    column j of node i = ALPH[c][(a*i + b*j + k) % len]
       {"fp": s}             fingerprint: pairwise distinct strictly positive entries
    """
    n = d["n"]
    edges = [tuple(x) for x in d["edges"]]
    card = {i: c for i, c in enumerate(d["card"])}
    pa = parents_of(n, edges)
    cpt = {}
    cols = d["cols"]
    pi = d.get("salt", 0)
    for v in range(n):
        confs = list(product(*[range(card[p]) for p in pa[v]]))
        t = {}
        for j, st in enumerate(confs):
            c = card[v]
            if "idx" in cols:
                t[st] = list(ALPH[c][cols["idx"][v][j] % len(ALPH[c])])
            elif "nd" in cols:
                t[st] = list(ND[c][(v + j + cols["nd"]) % len(ND[c])])
            elif "fam" in cols:
                a, b, k = cols["fam"]
                t[st] = list(ALPH[c][(a * v + b * j + k) % len(ALPH[c])])
            else:
                s = cols["fp"]
                ws = [PRIMES[(pi + s + 7 * v + 3 * j * c + r) % len(PRIMES)] for r in range(c)]
                # make distinct within column
                ws = [w + 400 * r for r, w in enumerate(ws)]
                z = sum(ws)
                t[st] = [F(w, z) for w in ws]
        cpt[v] = t
    return RefBN(n, pa, card, cpt)


def core_descs(n, dags, k):
    """every assignment of columns from the first k binary alphabet elements"""
    for edges in dags:
        pa = parents_of(n, edges)
        nc = [2 ** len(pa[v]) for v in range(n)]
        for choice in product(range(k), repeat=sum(nc)):
            idx, pos = [], 0
            for v in range(n):
                idx.append(list(choice[pos:pos + nc[v]]))
                pos += nc[v]
            yield {"n": n, "edges": [list(x) for x in edges], "card": [2] * n, "cols": {"idx": idx}}


def family_descs(n, dags, cardvecs, fams=((0, 0, 0), (1, 1, 0), (1, 2, 1), (2, 1, 2), (0, 1, 2), (1, 3, 4)), fps=(0,)):
    for edges in dags:
        for cv in cardvecs:
            for f in fams:
                yield {"n": n, "edges": [list(x) for x in edges], "card": list(cv), "cols": {"fam": list(f)}}
            for s in fps:
                yield {"n": n, "edges": [list(x) for x in edges], "card": list(cv), "cols": {"fp": s}}
