"""Complete structure generators."""
from itertools import combinations, permutations, product


def all_dags(n):
    """every labelled DAG on nodes 0..n-1 as a sorted tuple of edges; ordered
    by number of edges (simplest first). counts: 1,3,25,543,29281"""
    pairs = list(combinations(range(n), 2))
    out = []
    for orient in product((0, 1, 2), repeat=len(pairs)):  # 0 none, 1 a->b, 2 b->a
        edges = []
        for (a, b), o in zip(pairs, orient):
            if o == 1:
                edges.append((a, b))
            elif o == 2:
                edges.append((b, a))
        if is_acyclic(n, edges):
            out.append(tuple(sorted(edges)))
    out.sort(key=lambda e: (len(e), e))
    return out


def is_acyclic(n, edges):
    indeg = [0] * n
    ch = [[] for _ in range(n)]
    for a, b in edges:
        indeg[b] += 1
        ch[a].append(b)
    stack = [v for v in range(n) if indeg[v] == 0]
    seen = 0
    while stack:
        v = stack.pop()
        seen += 1
        for c in ch[v]:
            indeg[c] -= 1
            if indeg[c] == 0:
                stack.append(c)
    return seen == n


def parents_of(n, edges):
    pa = {v: [] for v in range(n)}
    for a, b in sorted(edges):
        pa[b].append(a)
    return pa


def canon_iso(n, edges):
    """canonical form of a DAG up to node relabelling (n<=5: brute force)"""
    best = None
    for perm in permutations(range(n)):
        e = tuple(sorted((perm[a], perm[b]) for a, b in edges))
        if best is None or e < best:
            best = e
    return best


def iso_classes(n):
    seen, out = set(), []
    for e in all_dags(n):
        c = canon_iso(n, e)
        if c not in seen:
            seen.add(c)
            out.append(c)
    return out


def all_ugraphs(n, connected=True):
    pairs = list(combinations(range(n), 2))
    out = []
    for mask in range(1 << len(pairs)):
        edges = tuple(p for i, p in enumerate(pairs) if mask >> i & 1)
        if not connected or is_connected(n, edges):
            out.append(edges)
    out.sort(key=lambda e: (len(e), e))
    return out


def is_connected(n, edges):
    if n == 0:
        return True
    adj = {v: set() for v in range(n)}
    for a, b in edges:
        adj[a].add(b)
        adj[b].add(a)
    seen, st = {0}, [0]
    while st:
        v = st.pop()
        for w in adj[v]:
            if w not in seen:
                seen.add(w)
                st.append(w)
    return len(seen) == n


def subsets(xs, kmax=None):
    xs = list(xs)
    kmax = len(xs) if kmax is None else min(kmax, len(xs))
    for k in range(kmax + 1):
        for c in combinations(xs, k):
            yield c
