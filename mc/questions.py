"""Enumeration of inference questions on a reference network (shared by C01-C03, C16)."""
from itertools import permutations, product

from mc.gen.dags import subsets
from mc.ref.discrete import posterior

# likelihood vectors: inside [0,1], with a zero, and NOT normalised with entries above 1 (only the ratios matter)
VE_LIKS = {2: [(1, 0.5), (0.25, 0.75), (0, 1), (3, 1)], 3: [(1, 0.5, 0.25), (0, 1, 1), (1, 3, 2)], 1: [(0.5,)], 4: [(1, 0.5, 0.25, 0)]}


def questions(ref, joint, qmax=None, emax=None, orders=True, virt=0, full_states=True):
    """yield dict(q=[ids], e=[(id,state) ordered], virt=[(id, lik)], post=RefFactor, pe=Fraction)
    for every non-empty query set, every disjoint evidence set, every ordering
    of the evidence, every evidence state vector with P(e)>0, and (virt=1)
    every single virtual evidence and every ordered pair of virtual evidences on non-evidence variables."""
    from fractions import Fraction as F

    n = ref.n
    for q in subsets(range(n), qmax):
        if not q:
            continue
        rest = [v for v in range(n) if v not in q]
        for e in subsets(rest, emax):
            for states in product(*[range(ref.card[v]) for v in e]):
                ev = dict(zip(e, states))
                virts = [[]]
                if virt:
                    for v in range(n):
                        if v in ev:
                            continue
                        for lik in VE_LIKS[ref.card[v]]:
                            virts.append([(v, lik)])
                    # two virtual evidences in one question (virtual evidence on one variable can make another one relevant)
                    free = [v for v in range(n) if v not in ev]
                    for a in free:
                        for b in free:
                            if a != b:
                                virts.append([(a, VE_LIKS[ref.card[a]][0]), (b, VE_LIKS[ref.card[b]][-1] if ref.card[b] > 1 else VE_LIKS[1][0])])
                for vl in virts:
                    soft = [(v, [F(x) for x in lik]) for v, lik in vl]
                    post, pe = posterior(joint, list(q), ev, soft)
                    if post is None:
                        continue
                    eorders = list(permutations(e)) if orders else [e]
                    for eo in eorders:
                        yield {"q": list(q), "e": [(v, ev[v]) for v in eo], "virt": vl, "post": post, "pe": pe}
