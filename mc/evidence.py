import json
import os

ROOT = os.path.dirname(os.path.dirname(os.path.abspath(__file__)))


def write_evidence(pid, tier, seed, mod, st, wall, nviol, known, harness_error=False):
    bounds = getattr(mod, "BOUNDS", {}).get(tier, "")
    capped = bool(st.caps)
    cov = {
        "evaluations": st.evals,
        "distinct_nontrivial": st.nontrivial,
        "rule": getattr(mod, "RULE", ""),
        "samples": st.samples[:6],
        "states": st.states,
        "transitions": st.transitions,
        "traces_validated_against_impl": st.compared,
        "distinct_outcomes": len(st.outcomes),
        "groups": st.groups,
        "bounds": bounds,
        "counters": st.extra,
        "caps_hit": st.caps,
        "exhaustive": (not capped) and bool(getattr(mod, "EXHAUSTIVE", {}).get(tier, False)) and not harness_error,
        "explorer": getattr(mod, "EXPLORER", "E1"),
        "known_findings_matched": known,
        "hash_seed": os.environ.get("PYTHONHASHSEED"),
    }
    ev = {
        "property_id": pid,
        "tier": tier,
        "seed": seed,
        "level": "model_checking",
        "coverage": cov,
        "assumptions": getattr(mod, "ASSUMPTIONS", []),
        "wall_s": round(wall, 2),
        "violations": nviol,
    }
    # VERIF_EVIDENCE_DIR: used by the mutation tooling so that runs on a mutated tree do not overwrite the real evidence
    edir = os.environ.get("VERIF_EVIDENCE_DIR") or os.path.join(ROOT, "evidence")
    os.makedirs(edir, exist_ok=True)
    tmp = os.path.join(edir, pid + ".json.tmp")
    with open(tmp, "w") as f:
        json.dump(ev, f, indent=1, default=str)
    os.replace(tmp, os.path.join(edir, pid + ".json"))
