"""Run groups of a property module in THIS process environment (hash seed / back end set by the parent).
stdin: JSON list of groups; stdout (last line): packed Stats."""
import json
import os
import sys


def main():
    pid = sys.argv[1]
    from mc.run import _quiet, load

    _quiet()
    be, dt = os.environ.get("VERIF_BACKEND", "numpy"), os.environ.get("VERIF_DTYPE", "float64")
    if be == "torch":
        import torch

        from pgmpy.global_vars import config

        config.set_backend("torch", dtype=torch.float32 if dt == "float32" else torch.float64)
    import mc.stats
    from mc.stats import Stats

    mc.stats.CURRENT_PID = pid
    mod = load(pid)
    total = Stats()
    for g in json.load(sys.stdin):
        try:
            total.merge(mod.run_group(g, "quick"))
        except Exception:
            import traceback

            total.harness_errors.append({"group": g, "trace": traceback.format_exc()[-1500:]})
    print(total.pack())


if __name__ == "__main__":
    main()
