"""Regenerate MANIFEST.json from the property modules that exist."""
import importlib
import json
import os
import sys

ROOT = os.path.dirname(os.path.dirname(os.path.abspath(__file__)))
ALL = [f"C{i:02d}" for i in range(1, 21)]
TRUST = ("CPython; the plain-Python Fraction reference model in mc/ref; the explorers in mc/ (validated by the seeded "
         "mutations under seeded/ and by re-finding the hand-confirmed defects of DESIGN.md section 5); numpy only as a "
         "container in the harness")


def main():
    sys.path.insert(0, ROOT)
    checks, na = [], []
    for pid in ALL:
        path = os.path.join(ROOT, "mc", "props", pid.lower() + ".py")
        if not os.path.exists(path):
            na.append({"property_id": pid, "reason": "check not built yet (planned: DESIGN.md section 2); nothing is claimed for it"})
            continue
        src = open(path).read()
        ns = {}
        # read metadata without importing pgmpy
        import ast
        tree = ast.parse(src)
        for node in tree.body:
            if isinstance(node, ast.Assign) and len(node.targets) == 1 and isinstance(node.targets[0], ast.Name):
                nm = node.targets[0].id
                if nm in ("RULE", "BOUNDS", "EXPLORER", "LEVEL_TEXT", "LEVEL_NOTE", "TECHNIQUE", "DESIGN_REF"):
                    try:
                        ns[nm] = ast.literal_eval(node.value)
                    except Exception:
                        pass
        expl = ns.get("EXPLORER", "E1")
        tech = ns.get("TECHNIQUE") or {
            "E1": "bounded exhaustive model checking: complete enumeration of a finite input x configuration space on the real code against a Fraction reference model",
            "E2": "explicit-state model checking: BFS over all operation histories up to a depth on the real objects, canonical-state dedup, reference model stepped in lock-step",
            "E3": "exhaustive choice-tree exploration of every random draw (exact output law) plus exhaustive input enumeration",
        }.get(expl, expl)
        checks.append({
            "property_id": pid,
            "quick_cmd": f"./check {pid} quick",
            "thorough_cmd": f"./check {pid} thorough",
            "evidence_file": f"/verif/evidence/{pid}.json",
            "replay_cmd_template": f"./check {pid} --replay {{path}}",
            "engine": "mc-" + expl,
            "level_claimed": {
                "category": "model_checking",
                "text": ns.get("LEVEL_TEXT") or ("Every execution in the stated bounded space is run on the implementation and compared with the "
                                                   "reference model; the claim is a coverage statement within the bounds: " + json.dumps(ns.get("BOUNDS", {}))),
                "design_ref": ns.get("DESIGN_REF", "DESIGN.md section 2, " + pid),
            },
            "level_note": ns.get("LEVEL_NOTE", TRUST),
            "technique": tech,
        })
    man = {
        "version": 1,
        "setup_cmd": "/venv/bin/python -m mc.selftest",
        "hooks": {"guard": "PGMPY_VERIF", "enable": "no source hooks exist: checks import /repo's working tree through the editable install in /venv and monkey-patch numpy.random inside the harness process only",
                  "baseline_off_cmd": "cd /repo && /venv/bin/python -m pytest -q -p no:cacheprovider --timeout=900 -n 16",
                  "source_commits": [], "add_only": True},
        "engines": [
            {"name": "mc-E1", "path": "mc/run.py", "kind_free_text": "bounded exhaustive input/configuration-space explorer on the real code"},
            {"name": "mc-E2", "path": "mc/histories.py", "kind_free_text": "explicit-state BFS over operation histories of real objects"},
            {"name": "mc-E3", "path": "mc/choices.py", "kind_free_text": "choice-tree explorer owning numpy.random (exact sampler laws)"},
        ],
        "checks": checks,
        "not_applicable": na,
        "notes": "See DESIGN.md. KNOWN_FINDINGS.json lists recorded and fixed defects.",
    }
    for e in man["engines"]:
        e["serves_properties"] = [c["property_id"] for c in checks if c["engine"] == e["name"]]
    with open(os.path.join(ROOT, "MANIFEST.json"), "w") as f:
        json.dump(man, f, indent=1)
    import subprocess
    r = subprocess.run(["python3-vt", "-c", "import json,jsonschema;jsonschema.validate(json.load(open('%s/MANIFEST.json')),json.load(open('/root/.vp/MANIFEST.schema.json')));print('manifest ok')" % ROOT])
    return r.returncode


if __name__ == "__main__":
    sys.exit(main())
