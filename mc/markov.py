"""Reference Markov networks (lists of RefFactors, duplicates allowed) and their pgmpy builds."""
from fractions import Fraction as F
from itertools import combinations, product

from mc.ref.discrete import RefFactor, assignments

LAYOUTS = ["edge", "edge+unary", "dup", "twin", "clique"]
# + "sparse": factors on a greedy variable cover of the maximal cliques only, so some maximal cliques (and edges) carry no factor
LAYOUTS_X = LAYOUTS + ["sparse"]


def max_cliques(n, edges):
    adj = {v: set() for v in range(n)}
    for a, b in edges:
        adj[a].add(b)
        adj[b].add(a)
    cl = []
    for k in range(n, 0, -1):
        for c in combinations(range(n), k):
            if all(b in adj[a] for a, b in combinations(c, 2)) and not any(set(c) <= set(d) for d in cl):
                cl.append(c)
    return cl


def ref_mn(n, edges, card, layout, salt=0):
    """returns (card dict, [RefFactor...]).  values: small positive integers (exact in float),
    pairwise distinct inside a factor; 'dup' repeats the first factor (equal values, same scope)."""
    card = {i: c for i, c in enumerate(card)}
    scopes = [tuple(e) for e in edges] if layout not in ("clique", "sparse") else [tuple(c) for c in max_cliques(n, edges)]
    if layout == "sparse":
        chosen, covered, rest = [], set(), list(scopes)
        while rest and len(covered) < len({v for c in scopes for v in c}):
            best = max(rest, key=lambda c: (len(set(c) - covered), -rest.index(c)))
            if not set(best) - covered:
                break
            chosen.append(best)
            covered |= set(best)
            rest.remove(best)
        scopes = chosen
    if layout == "edge+unary":
        scopes = scopes + [(v,) for v in range(n)]
    facs = []
    for fi, sc in enumerate(scopes):
        t = {}
        for j, stt in enumerate(assignments([card[v] for v in sc])):
            t[stt] = F(1 + ((3 * j + 2 * fi + salt) % 7) + (j == 0) * 2)
        facs.append(RefFactor(sc, card, t))
    if layout == "dup" and facs:
        facs.append(RefFactor(facs[0].vars, card, dict(facs[0].table)))
        # and a second factor with equal VALUES on another scope of the same shape if there is one
    if layout == "twin" and facs:
        # a second, DIFFERENT factor over the scope of the first one (listed in reversed axis order)
        f0 = facs[0]
        rv = tuple(reversed(f0.vars))
        facs.append(RefFactor(rv, card, {tuple(reversed(k)): F(2 + ((5 * j + 1) % 9)) for j, k in enumerate(sorted(f0.table))}))
    for v in range(n):
        if not any(v in f.vars for f in facs):
            facs.append(RefFactor((v,), card, {(s,): F(1 + s) for s in range(card[v])}))
    return card, facs


def joint_of(n, card, facs):
    j = RefFactor.const(F(1))
    for f in facs:
        j = j.product(f)
    missing = [v for v in range(n) if v not in j.vars]
    assert not missing
    return j.reorder(range(n))


def make_factor(rf, lab):
    from pgmpy.factors.discrete import DiscreteFactor

    vals = [float(rf.table[stt]) for stt in assignments([rf.card[v] for v in rf.vars])]
    return DiscreteFactor([lab.name(v) for v in rf.vars], [rf.card[v] for v in rf.vars], vals,
                          state_names=lab.state_names_arg(rf.vars))


def make_mn(n, edges, facs, lab):
    from pgmpy.models import MarkovNetwork

    m = MarkovNetwork()
    m.add_nodes_from([lab.name(v) for v in range(n)])
    m.add_edges_from([(lab.name(a), lab.name(b)) for a, b in edges])
    m.add_factors(*[make_factor(f, lab) for f in facs])
    return m


def make_fg(n, facs, lab):
    from pgmpy.models import FactorGraph

    g = FactorGraph()
    g.add_nodes_from([lab.name(v) for v in range(n)])
    fs = [make_factor(f, lab) for f in facs]
    g.add_factors(*fs)
    for f in fs:
        g.add_nodes_from([f])
        for v in f.variables:
            g.add_edge(v, f)
    return g
