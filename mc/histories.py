"""E2: explicit-state breadth-first search over operation histories of real objects.

A state is the event history that reaches it (live objects rarely copy
faithfully: aliasing between handles must be preserved, so a state is rebuilt
by replaying its history on fresh objects).  A system module provides

    expand(history) -> (Stats, [(canon_key, event), ...])

which replays `history`, then for every enabled event executes the REAL
operation, steps the reference model, checks the invariants, and returns the
canonical key of every successor.  The engine is level-synchronous, shards each
level over forked workers, de-duplicates by canonical key and keeps, for every
new canonical state, the lexicographically smallest history (deterministic).
"""
import importlib
import json
import os

from mc.stats import Stats


def _expand_chunk(args):
    modname, fn, chunk = args
    mod = importlib.import_module(modname)
    f = getattr(mod, fn)
    st = Stats()
    out = []
    for hist in chunk:
        try:
            s, succ = f(hist)
        except Exception:
            import traceback

            s, succ = Stats(), []
            s.harness_errors.append({"history": hist, "trace": traceback.format_exc()[-1500:]})
        st.merge(s)
        out.append((hist, succ))
    return st.pack(), out


def bfs(modname, fn, depth, label, nproc=None, chunk=24):
    """returns Stats; states = canonical states discovered, transitions = executed events"""
    nproc = nproc or int(os.environ.get("VERIF_PROCS", "16"))
    total = Stats()
    root_key = "<init>"
    seen = {root_key}
    frontier = [[]]
    per_level = []
    import multiprocessing as mp

    ctx = mp.get_context("fork")
    pool = ctx.Pool(nproc) if nproc > 1 else None
    try:
        for d in range(depth):
            chunks = [frontier[i:i + chunk] for i in range(0, len(frontier), chunk)]
            jobs = [(modname, fn, c) for c in chunks]
            results = pool.imap_unordered(_expand_chunk, jobs) if pool else map(_expand_chunk, jobs)
            best = {}
            for packed, out in results:
                total.merge(Stats.unpack(packed))
                for hist, succ in out:
                    for key, ev in succ:
                        if key in seen:
                            continue
                        h2 = hist + [ev]
                        k2 = json.dumps(h2, sort_keys=True)
                        if key not in best or k2 < best[key][0]:
                            best[key] = (k2, h2)
            seen |= set(best)
            frontier = [h for _, h in sorted(best.values())]
            per_level.append(len(frontier))
            if not frontier:
                break
    finally:
        if pool:
            pool.close()
            pool.join()
    total.states += len(seen)
    total.extra[f"{label}.states"] = len(seen)
    total.extra[f"{label}.depth_completed"] = depth
    for i, c in enumerate(per_level):
        total.extra[f"{label}.new_states_depth_{i + 1}"] = c
    return total
