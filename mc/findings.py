"""Known findings: KNOWN_FINDINGS.json (read-only at run time).

Each entry: {id, property, status: "known"|"fixed", site, kinds, predicate, what}
A violation is downgraded to KNOWN-FINDING only when status == "known", the
call site and kind match and the named predicate (below) accepts the specific
case / wrong value.  "fixed" entries suppress nothing.
"""
import json
import os

ROOT = os.path.dirname(os.path.dirname(os.path.abspath(__file__)))
_cache = None


def _load():
    global _cache
    if _cache is None:
        p = os.path.join(ROOT, "KNOWN_FINDINGS.json")
        _cache = json.load(open(p))["findings"] if os.path.exists(p) else []
    return _cache


def by_id(fid):
    for f in _load():
        if f["id"] == fid:
            return f
    return None


def match(pid, v):
    for f in _load():
        if f.get("status") != "known" or f["property"] != pid:
            continue
        if f.get("site") and v.get("site") not in (f["site"] if isinstance(f["site"], list) else [f["site"]]):
            continue
        if f.get("kinds") and v.get("kind") not in f["kinds"]:
            continue
        pred = PREDICATES.get(f.get("predicate"))
        if pred is None:
            continue
        try:
            if pred(v, f):
                return f
        except Exception:
            continue
    return None


PREDICATES = {}


def predicate(fn):
    PREDICATES[fn.__name__] = fn
    return fn


@predicate
def f18_minimal_imap(v, f):
    """observed edge set is exactly what the recorded algorithm defect predicts"""
    d = v.get("detail") or {}
    return v.get("site") == "minimal_imap" and "f18_model_edges" in d and sorted(map(list, v["observed"])) == d["f18_model_edges"]


@predicate
def f05_closure(v, f):
    """observed closure / verdict is exactly what the recorded contraction-rule defect predicts"""
    return bool((v.get("detail") or {}).get("f05_model_match"))


@predicate
def f34_fg_duplicate_factors(v, f):
    """to_factor_graph on a Markov network holding two EQUAL factors: the target's check_model counts value-hashed factor nodes"""
    g = (v.get("case") or {}).get("g") or {}
    return g.get("layout") == "dup" and "Factors not associated with all the factor nodes" in str(v.get("observed"))


@predicate
def f07_string_factor_nodes(v, f):
    """MarkovNetwork.to_factor_graph names factor nodes 'phi_<scope>' (strings): the target's check_model rejects them"""
    return "Factors not associated for all the random variables" in str(v.get("observed"))


@predicate
def f12c_bds(v, f):
    """BDs local score equals the recorded wrong formula (only possible when some parent configuration is unobserved)"""
    return bool((v.get("detail") or {}).get("f12c_model_match"))


@predicate
def f26_canonical_g(v, f):
    """marginalised canonical form has the right K and h; its constant g is off by exactly 0.5*(h_j'K_jj h_j - h_j'K_jj^-1 h_j)"""
    return bool((v.get("detail") or {}).get("f26_model_match"))


@predicate
def f19_min_adjustment_descendant(v, f):
    """get_minimal_adjustment_set returns a set that blocks the non-causal paths but contains a descendant of X (a mediator)"""
    return v.get("expected") == "contains a descendant of X"


# ---- C17: DBNInference.  The failing inputs are enumerated (known/C17_cases.json, generated once by
# tools/gen_known_cases.py and committed); a violation is a known finding only if exactly this
# (call site, template, cardinality, CPD family, query, evidence, wrong value) is listed.
_c17 = None


def c17_digest(v):
    import hashlib

    c = v.get("case") or {}
    g = c.get("g") or {}
    obs = v.get("observed")
    if isinstance(obs, list):
        obs = [round(float(x), 6) for x in obs]
    else:
        obs = str(obs)[:60]
    key = json.dumps([v.get("site"), v.get("kind"), c.get("template"), g.get("nv"), g.get("card"), g.get("fam"), c.get("q"), c.get("e"), obs] + ([True] if g.get("zeros") else []), sort_keys=True)
    return hashlib.sha1(key.encode()).hexdigest()[:16]


def c17_category(v):
    o = str(v.get("observed"))
    if v.get("kind") == "wrong-marginal" and v.get("site") in ("query", "forward_inference", "backward_inference"):
        return "F24"
    if v.get("kind") == "exception" and "Factors defined on clusters of variable" in o:
        return "F24c"
    if v.get("kind") == "exception" and v.get("site") == "DBNInference" and "CPD defined on variable not in the model" in o:
        return "F38"
    return None


@predicate
def c17_listed(v, f):
    global _c17
    if _c17 is None:
        p = os.path.join(ROOT, "known", "C17_cases.json")
        _c17 = {k: set(x) for k, x in json.load(open(p)).items()} if os.path.exists(p) else {}
    return c17_category(v) == f["id"] and c17_digest(v) in _c17.get(f["id"], set())


@predicate
def f10b_multi_do_descendant(v, f):
    """joint intervention whose default (parent) adjustment set contains a descendant of another do-variable"""
    d = v.get("detail") or {}
    return bool(d.get("multi_do") and d.get("default_adjustment_contains_descendant_of_do"))


@predicate
def f40_torch_float32_truncation(v, f):
    """torch back end, float64 dtype: the answer equals the reference up to float32 quantisation of the input tables
    (relative 2^-24 per entry => absolute error far below 1e-6 on these models); anything larger is still a violation"""
    import re

    if "torch,float64]" not in str(v.get("site")):
        return False
    txt = str(v.get("expected")) + " " + str(v.get("observed"))
    m = re.search(r"([-+0-9.e]+)r? != ([-+0-9.e]+)", txt)
    if m:
        try:
            return abs(float(m.group(1)) - float(m.group(2))) < 1e-6
        except ValueError:
            return False
    try:  # numeric observed / expected records (get_state_probability, predict_probability)
        o = float(v.get("observed"))
        e = v.get("expected")
        e = float(e["exp"]) if isinstance(e, dict) else float(e)
        return abs(o - e) < 1e-6
    except Exception:
        return False
