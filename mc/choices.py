"""E3: choice-tree explorer.  The harness owns numpy.random while a sampler runs:
every np.random.choice(values, size=k, p=p) becomes a choice point whose k-tuples
(with positive probability) are enumerated depth-first; the product of the
probabilities is the exact weight of the path.  Summing path weights per distinct
output gives the exact law of the sampler (no sampling involved)."""
from fractions import Fraction as F
from itertools import product

import numpy as np


class Horizon(Exception):
    pass


class Oracle:
    def __init__(self, prefix, max_k=6, max_points=40):
        self.prefix = list(prefix)
        self.trace = []
        self.weight = F(1)
        self.max_k = max_k
        self.max_points = max_points
        self.seeds = []

    def _point(self, nopt):
        pos = len(self.trace)
        if pos >= self.max_points:
            raise Horizon("too many choice points")
        idx = self.prefix[pos] if pos < len(self.prefix) else 0
        if idx >= nopt:
            raise AssertionError("replay divergence: choice index out of range")
        self.trace.append((idx, nopt))
        return idx

    def choice(self, a, size=None, replace=True, p=None):
        arr = np.arange(a) if isinstance(a, (int, np.integer)) else np.asarray(a)
        n = 1 if size is None else int(np.prod(size))
        if p is None:
            p = [1.0 / len(arr)] * len(arr)
        p = [float(x) for x in np.asarray(p).reshape(-1)]
        # numpy's own argument checks (a sampler that passes an invalid vector fails on the real RNG too)
        if any(x < 0 for x in p):
            raise ValueError("probabilities are not non-negative")
        if abs(sum(p) - 1.0) > 1e-8:
            raise ValueError("probabilities do not sum to 1")
        support = [i for i, x in enumerate(p) if x > 0]
        if n > self.max_k:
            raise Horizon(f"choice point of size {n}")
        nopt = len(support) ** n
        idx = self._point(nopt)
        pick = []
        for _ in range(n):
            pick.append(support[idx % len(support)])
            idx //= len(support)
        for i in pick:
            self.weight *= F(p[i])
        out = arr[pick]
        if size is None:
            return out[0]
        return out.reshape(size)

    def randint(self, low, high=None, size=None, dtype=int):
        if high is None:
            low, high = 0, low
        vals = np.arange(low, high)
        return self.choice(vals, size=size)

    def rand(self, *shape):
        raise Horizon("np.random.rand is not enumerable")

    def seed(self, s=None):
        self.seeds.append(s)


class patched:
    def __init__(self, oracle):
        self.o = oracle

    def __enter__(self):
        self.saved = (np.random.choice, np.random.seed, np.random.randint, np.random.rand)
        np.random.choice, np.random.seed, np.random.randint, np.random.rand = self.o.choice, self.o.seed, self.o.randint, self.o.rand
        return self.o

    def __exit__(self, *a):
        np.random.choice, np.random.seed, np.random.randint, np.random.rand = self.saved


def explore(fn, max_paths=4000, max_k=6, max_points=40):
    """run fn() under every choice sequence.  returns (law: {outcome: Fraction}, info).
    fn must return a hashable outcome.  Paths cut by the horizon contribute their mass to info['cut_mass']."""
    law, info = {}, {"paths": 0, "cut_paths": 0, "cut_mass": F(0), "branches": 0, "capped": False, "errors": []}
    prefix = []
    while True:
        o = Oracle(prefix, max_k, max_points)
        try:
            with patched(o):
                out = fn()
            law[out] = law.get(out, F(0)) + o.weight
        except Horizon:
            info["cut_paths"] += 1
            info["cut_mass"] += o.weight
        except Exception as ex:  # the sampler itself failed on this path
            info["errors"].append((list(t[0] for t in o.trace), repr(ex)[:200]))
            law[("EXC", repr(ex)[:80])] = law.get(("EXC", repr(ex)[:80]), F(0)) + o.weight
        info["paths"] += 1
        info["branches"] += len(o.trace)
        tr = o.trace
        i = len(tr) - 1
        while i >= 0 and tr[i][0] + 1 >= tr[i][1]:
            i -= 1
        if i < 0:
            break
        prefix = [t[0] for t in tr[:i]] + [tr[i][0] + 1]
        if info["paths"] >= max_paths:
            info["capped"] = True
            break
    return law, info
