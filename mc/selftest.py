"""setup_cmd: self-test of the reference model on hand-computed numbers."""
import sys
from fractions import Fraction as F


def main():
    from mc.gen.dags import all_dags, all_ugraphs, iso_classes
    from mc.ref.discrete import RefBN, posterior

    assert [len(all_dags(n)) for n in (1, 2, 3, 4)] == [1, 3, 25, 543]
    assert [len(all_ugraphs(n)) for n in (1, 2, 3, 4)] == [1, 1, 4, 38]
    assert len(iso_classes(4)) == 31
    # rain / sprinkler / wet grass (hand-computed)
    h = F(1, 2)
    bn = RefBN(3, {2: [0, 1]}, {0: 2, 1: 2, 2: 2},
               {0: {(): [h, h]}, 1: {(): [F(1, 4), F(3, 4)]},
                2: {(0, 0): [F(1), F(0)], (0, 1): [h, h], (1, 0): [F(1, 4), F(3, 4)], (1, 1): [F(0), F(1)]}})
    j = bn.joint()
    assert j.total() == 1
    post, z = posterior(j, [0], {2: 1})
    # P(w=1) = .5*.25*0 + .5*.75*.5 + .5*.25*.75 + .5*.75*1
    assert z == F(3, 16) + F(3, 32) + F(3, 8), z
    assert post.table[(1,)] == (F(3, 32) + F(3, 8)) / z
    print("selftest ok")
    return 0


if __name__ == "__main__":
    sys.exit(main())
