"""Counters incremented by the explorers; merged across workers."""
import json


import re as _re

_ADDR = _re.compile(r" at 0x[0-9a-fA-F]+")


def _scrub(x):
    """memory addresses in reprs differ from run to run: remove them so that replays compare equal"""
    if isinstance(x, str):
        return _ADDR.sub("", x)
    if isinstance(x, dict):
        return {k: _scrub(v) for k, v in x.items()}
    if isinstance(x, (list, tuple)):
        return [_scrub(v) for v in x]
    return x


CURRENT_PID = None  # set by the runner: property whose known findings apply


class Stats:
    MAXV = 400

    def __init__(self):
        self.evals = 0          # executions of the implementation
        self.compared = 0       # observations compared with the reference model
        self.states = 0         # canonical inputs / canonical states / tree nodes
        self.transitions = 0    # executed transitions / executions / branches
        self.nontrivial = 0     # distinct canonical cases non-trivial by RULE
        self.outcomes = set()   # distinct observed outcomes (small hashes)
        self.samples = []
        self.violations = []
        self.nviol = 0
        self.caps = []          # every cap that cut the run
        self.extra = {}         # free-form counters (summed)
        self.harness_errors = []
        self.groups = 0
        self._nt = set()
        self._cls = {}

    # -- helpers used by explorers
    def nt(self, key):
        """count a distinct non-trivial case (distinct within this Stats)"""
        if key not in self._nt:
            self._nt.add(key)
            self.nontrivial += 1

    def outcome(self, o):
        if len(self.outcomes) < 5000:
            self.outcomes.add(hash(o) & 0xFFFFFFFF if not isinstance(o, int) else o)

    def sample(self, s, cap=3):
        if len(self.samples) < cap:
            self.samples.append(s)

    def bump(self, k, n=1):
        self.extra[k] = self.extra.get(k, 0) + n

    def violation(self, site, kind, case, observed=None, expected=None, detail=None):
        self.nviol += 1
        observed, expected, detail = _scrub(observed), _scrub(expected), _scrub(detail)
        rec = {"site": site, "kind": kind, "case": case, "observed": observed, "expected": expected, "detail": detail}
        # recorded (known) findings are capped separately, so that they can never crowd out a new violation
        kid = None
        if CURRENT_PID:
            from mc import findings

            f = findings.match(CURRENT_PID, rec)
            kid = f["id"] if f else None
        rec["known"] = kid
        k = f"{site}|{kind}|{kid}"
        self._cls[k] = self._cls.get(k, 0) + 1
        if (self._cls[k] <= 25 or getattr(Stats, "NOCAP", False)) and len(self.violations) < self.MAXV:
            self.violations.append(rec)

    def cap(self, what, **kw):
        d = {"cap": what}
        d.update(kw)
        if len(self.caps) < 50:
            self.caps.append(d)

    def pack(self):
        d = dict(self.__dict__)
        d.pop("_nt")
        d.pop("_cls")
        d["outcomes"] = list(self.outcomes)
        return json.dumps(d, default=str)

    @staticmethod
    def unpack(s):
        d = json.loads(s)
        st = Stats()
        for k, v in d.items():
            setattr(st, k, v)
        st.outcomes = set(st.outcomes)
        return st

    def merge(self, o):
        self.evals += o.evals
        self.compared += o.compared
        self.states += o.states
        self.transitions += o.transitions
        self.nontrivial += o.nontrivial
        self.outcomes |= o.outcomes
        for s in o.samples:
            self.sample(s, cap=6)
        self.nviol += o.nviol
        for v in o.violations:
            k = f"{v.get('site')}|{v.get('kind')}|{v.get('known')}"
            self._cls[k] = self._cls.get(k, 0) + 1
            if self._cls[k] <= 300:
                self.violations.append(v)
        self.caps.extend(o.caps[: max(0, 50 - len(self.caps))])
        for k, v in o.extra.items():
            self.extra[k] = self.extra.get(k, 0) + v
        self.harness_errors.extend(o.harness_errors)
