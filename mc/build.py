"""Labelings and construction of real pgmpy objects from reference objects."""
from itertools import product

import numpy as np

NAME_SETS = {
    "int": [0, 1, 2, 3, 4, 5, 6, 7],
    "str": ["A", "B", "C", "D", "E", "G", "H", "K"],
    "multi": ["xa", "yb", "ax", "by", "cz", "zc", "dw", "wd"],
    "tuple": [("t", 0), ("t", 1), ("u", 0), ("u", 1), ("v", 0), ("v", 1), ("w", 0), ("w", 1)],
}

STATE_STYLES = ["def", "str", "rot", "shift", "tuple", "mixed"]


def state_names_for(style, node, card):
    if style == "def":
        return list(range(card))
    if style == "str":
        return [f"{chr(97 + node)}{i}" for i in range(card)]
    if style == "rot":
        return [(i + 1) % card for i in range(card)] if card > 1 else [7]
    if style == "shift":
        return [i + 1 for i in range(card)]
    if style == "tuple":
        return [("s", i) for i in range(card)]
    if style == "mixed":
        return [i if i % 2 == 0 else f"m{i}" for i in range(card)]
    raise ValueError(style)


class Labeling:
    def __init__(self, n, card, nameset="str", perm=None, style="def"):
        pool = NAME_SETS[nameset]
        perm = list(perm) if perm is not None else list(range(n))
        self.n = n
        self.nameset, self.perm, self.style = nameset, perm, style
        self.names = [pool[perm[i]] for i in range(n)]
        self.id = {nm: i for i, nm in enumerate(self.names)}
        self.states = {i: state_names_for(style, i, card[i]) for i in range(n)}
        self.sidx = {i: {s: k for k, s in enumerate(self.states[i])} for i in range(n)}

    def desc(self):
        return {"nameset": self.nameset, "perm": self.perm, "style": self.style}

    def name(self, i):
        return self.names[i]

    def state(self, i, k):
        return self.states[i][k]

    def ev(self, evid):
        """{id: state idx} -> {name: state name} preserving order"""
        return {self.names[v]: self.states[v][s] for v, s in evid.items()}

    def state_names_arg(self, ids):
        if self.style == "def":
            return {}
        return {self.names[i]: list(self.states[i]) for i in ids}


def cpd_matrix(ref, v, parent_order=None):
    pa = list(parent_order) if parent_order is not None else list(ref.parents[v])
    cols = []
    for st in product(*[range(ref.card[p]) for p in pa]):
        a = dict(zip(pa, st))
        cols.append([float(x) for x in ref.cpt[v][tuple(a[p] for p in ref.parents[v])]])
    return np.array(cols, dtype=float).T.reshape(ref.card[v], -1), pa


def make_cpd(ref, v, lab, parent_order=None):
    from pgmpy.factors.discrete import TabularCPD

    m, pa = cpd_matrix(ref, v, parent_order)
    kw = {}
    sn = lab.state_names_arg([v] + pa)
    if sn:
        kw["state_names"] = sn
    if pa:
        return TabularCPD(lab.name(v), ref.card[v], m, evidence=[lab.name(p) for p in pa],
                          evidence_card=[ref.card[p] for p in pa], **kw)
    return TabularCPD(lab.name(v), ref.card[v], m, **kw)


def make_bn(ref, lab, parent_orders=None, node_order=None, edge_order=None, cpd_order=None, latents=(), cls=None):
    from pgmpy.models import BayesianNetwork

    cls = cls or BayesianNetwork
    bn = cls()
    for v in (node_order if node_order is not None else ref.nodes):
        bn.add_node(lab.name(v), latent=(v in latents)) if latents else bn.add_node(lab.name(v))
    for a, b in (edge_order if edge_order is not None else ref.edges()):
        bn.add_edge(lab.name(a), lab.name(b))
    for v in (cpd_order if cpd_order is not None else ref.nodes):
        po = parent_orders.get(v) if parent_orders else None
        bn.add_cpds(make_cpd(ref, v, lab, po))
    return bn


def named_table(phi):
    """pgmpy DiscreteFactor -> (set of variables, {frozenset((var,state)): float})"""
    vals = np.asarray(phi.values if not hasattr(phi.values, "numpy") else phi.values.numpy(), dtype=float)
    vs = list(phi.variables)
    sn = phi.state_names
    out = {}
    for idx in np.ndindex(*vals.shape) if vals.ndim else [()]:
        out[frozenset((v, sn[v][i]) for v, i in zip(vs, idx))] = float(vals[idx])
    return set(vs), out


def ref_named(rf, lab):
    out = {}
    for k, val in rf.table.items():
        out[frozenset((lab.name(v), lab.state(v, s)) for v, s in zip(rf.vars, k))] = val
    return set(lab.name(v) for v in rf.vars), out


import os as _os

DEFAULT_TOL = float(_os.environ.get("VERIF_TOL", "1e-9"))


def cmp_named(obs, exp, tol=None):
    """obs/exp: (varset, table).  returns None if equal else a short description"""
    tol = DEFAULT_TOL if tol is None else tol
    ov, ot = obs
    ev, et = exp
    if ov != ev:
        return f"scope {sorted(map(repr, ov))} != {sorted(map(repr, ev))}"
    if set(ot) != set(et):
        return f"assignments differ: {sorted(map(repr, set(ot) ^ set(et)))[:4]}"
    worst = None
    for k, e in et.items():
        o = ot[k]
        ef = float(e)
        if not (abs(o - ef) <= tol) and not (o == ef):  # second clause: inf == inf
            if worst is None or abs(o - ef) > worst[0]:
                worst = (abs(o - ef), k, o, ef)
    if worst:
        return f"value at {sorted(map(repr, worst[1]))}: {worst[2]!r} != {worst[3]!r}"
    return None


def tbl_json(t):
    vs, tab = t
    return {"vars": sorted(map(repr, vs)), "table": {repr(sorted(map(repr, k))): (float(v) if v == v else "nan") for k, v in sorted(tab.items(), key=lambda kv: repr(sorted(map(repr, kv[0]))))}}
