"""C07: samplers draw from the distribution they claim, reproducibly (E3 choice tree + E1)."""
from fractions import Fraction as F
from itertools import product

import numpy as np

from mc.build import Labeling, make_bn
from mc.choices import explore
from mc.gen.dags import all_ugraphs, all_dags, iso_classes, subsets
from mc.gen.tables import bn_from_desc, family_descs
from mc.markov import joint_of, make_mn, ref_mn
from mc.ref.discrete import posterior
from mc.stats import Stats

EXPLORER = "E3"
RULE = ("E3: numpy.random is owned by the harness; every outcome tuple of every np.random.choice a sampler makes is "
        "enumerated depth-first with its probability, so the EXACT law of the returned frame is computed and compared with "
        "the reference (forward: prod joint(row); rejection | terminated: prod posterior(row), every row agrees with the "
        "evidence; likelihood weighting: evidence columns fixed, other columns follow the mutilated network, _weight == "
        "prod_e P(e | sampled parents) on every path; Gibbs: kernels == full conditionals for every configuration, chain "
        "law == product of kernel entries). E1: models = iso classes of DAGs n<=3 x cardinalities x zero entries x state-name "
        "styles (incl. non-identity ints) x latent subsets; all evidence sets of size 1; sizes {1,2}; seeds {0,1,2} "
        "reproducibility with the real RNG (two engines + a fresh process). non-trivial = distinct (model, call) whose law "
        "has >=3 outcomes with pairwise different probabilities")
BOUNDS = {"quick": "iso classes n<=3 x {(2,2,2) with zeros, (2,3,2)} x styles {def,str,rot,shift}; forward size 1 (size 2 on n<=2 and on n=3 with default style); LW size 1 (2 on n<=2), |E|=1; forward and LW with size 2 on every 3-node DAG with a two-parent node x cards {(2,3,2),(3,2,2),(2,2,3)}; rejection size 1 (size 2 on n<=2), "
                   "horizon: choice points of <=6 draws, <=40 points per path (cut mass reported); Gibbs BN+MN n<=3, chains of length<=3; simulate with do/evidence/virtual",
          "thorough": "adds |E|=2 (size 1), forward size 2 on all styles/latents, LW size 2 with |E|=1 on n=3, rejection size 2 on all n<=2 models, horizon 7 draws / 4000 paths"}
EXHAUSTIVE = {"quick": True, "thorough": True}
ASSUMPTIONS = ["GibbsSampling documents integer state indices as its chain states", "rejection sampling is explored up to the horizon; the law is checked conditional on termination (exact, see mc/props/c07.py docstring)",
               "partial_samples are given as state numbers with default integer state names"]

STYLES = ["def", "str", "rot", "shift"]


def groups(tier, seed):
    out = []
    for n in (1, 2, 3):
        for d in list(family_descs(n, iso_classes(n), [(2,) * n], fams=((1, 2, 1),), fps=())) + \
                 list(family_descs(n, iso_classes(n), [(2, 3, 2)[:n]], fams=(), fps=(0,))):
            for stl in STYLES:
                out.append({"part": "bn", "bn": d, "style": stl, "emax": 1 if tier == "quick" else 2})
        # non-dyadic columns (float sums differ from 1 by an ulp) with an impossible LAST state
        for cv in ((4, 2, 3), (2, 4, 4)):
            for e in iso_classes(n):
                for k in (0, 1):
                    out.append({"part": "bn", "bn": {"n": n, "edges": [list(x) for x in e], "card": list(cv[:n]), "cols": {"nd": k}}, "style": "str", "emax": 1})
    # two parents of DIFFERENT cardinalities (both orders) with two samples per call: rows are grouped by parent configuration
    for e in all_dags(3):
        if max(sum(1 for a, b in e if b == v) for v in range(3)) >= 2:
            for cv in ((2, 3, 2), (3, 2, 2), (2, 2, 3)):
                for d in family_descs(3, [e], [cv], fams=(), fps=(0,)):
                    out.append({"part": "bn", "bn": d, "style": "str", "emax": 1, "size2": True})
    for n in (2, 3):
        for d in family_descs(n, iso_classes(n), [(2, 3, 2)[:n]], fams=(), fps=(1,)):
            for stl in ("def", "rot", "str"):
                out.append({"part": "gibbs-bn", "bn": d, "style": stl})
        for e in all_ugraphs(n):
            out.append({"part": "gibbs-mn", "n": n, "edges": [list(x) for x in e], "card": [2, 3, 2][:n]})
    for d in family_descs(3, iso_classes(3), [(2, 2, 2)], fams=((1, 2, 1),), fps=(0,)):
        out.append({"part": "simulate", "bn": d, "style": "str"})
    out.append({"part": "seed"})
    return out


def run_group(g, tier):
    st = Stats()
    {"bn": _bn, "gibbs-bn": _gibbs_bn, "gibbs-mn": _gibbs_mn, "simulate": _simulate, "seed": _seed}[g["part"]](st, g, tier)
    return st


def replay(case):
    st = Stats()
    g = case["g"]
    {"bn": _bn, "gibbs-bn": _gibbs_bn, "gibbs-mn": _gibbs_mn, "simulate": _simulate, "seed": _seed}[g["part"]](st, g, "quick", only=case.get("call"))
    return [v for v in st.violations if v["case"].get("call") == case.get("call")][:5]


def full_post(joint, evd, soft=None):
    """posterior over ALL variables (evidence variables keep their observed value); returns (RefFactor|None, P(e))"""
    from mc.ref.discrete import RefFactor

    t = {}
    for k, p in joint.table.items():
        a = dict(zip(joint.vars, k))
        if all(a[v] == s for v, s in evd.items()):
            w = p
            for v, lik in (soft or []):
                w = w * lik[a[v]]
            t[k] = w
        else:
            t[k] = F(0)
    z = sum(t.values())
    if z == 0:
        return None, z
    return RefFactor(joint.vars, joint.card, {k: v / z for k, v in t.items()}), z


def frame_key(df, cols=None):
    cols = list(df.columns) if cols is None else cols
    rows = []
    for i in range(len(df)):
        rows.append(tuple((str(c), _py(df[c].iloc[i])) for c in sorted(cols, key=str)))
    return tuple(rows)


def _py(x):
    if hasattr(x, "item"):
        x = x.item()
    if isinstance(x, float) and x == int(x) and False:
        return int(x)
    return x


def _law_check(st, site, case, law, info, expected, tol=F(0)):
    """law/expected: {outcome: Fraction}; exact comparison (dyadic probabilities are exact in floats)"""
    st.transitions += info["branches"]
    st.bump("paths:" + site, info["paths"])
    st.evals += info["paths"]
    st.states += info["paths"]
    if info["capped"]:
        st.cap("max_paths", site=site, case=str(case)[:200])
    if info["cut_paths"]:
        st.cap("horizon", site=site, cut_mass=float(info["cut_mass"]), cut_paths=info["cut_paths"])
    excs = {k: v for k, v in law.items() if isinstance(k, tuple) and k and k[0] == "EXC"}
    if excs:
        st.violation(site, "exception", case, [str(k[1]) for k in excs][:3], None)
        return False
    st.compared += len(law)
    keys = set(law) | {k for k, v in expected.items() if v > 0}
    if info["capped"]:
        # the tree was not explored completely: the partial law is not comparable; only impossible outcomes are decidable
        keys = {k for k in law if expected.get(k, F(0)) == 0}
    for k in keys:
        a, b = law.get(k, F(0)), expected.get(k, F(0))
        if abs(a - b) > F(1, 10 ** 12) or (b == 0 and a > 0):
            kind = "impossible-outcome" if b == 0 else "wrong-law"
            st.violation(site, kind, case, {"outcome": str(k)[:300], "probability": float(a)}, float(b))
            return False
    vals = sorted(set(expected.values()))
    if len([v for v in vals if v > 0]) >= 3:
        st.nt((site, str(case)[:300]))
    st.outcome(len(law))
    return True


def _bn(st, g, tier, only=None):
    from pgmpy.factors.discrete import State
    from pgmpy.sampling import BayesianModelSampling

    ref = bn_from_desc(g["bn"])
    n = ref.n
    lab = Labeling(n, ref.card, "str", None, g["style"])
    joint = ref.joint()
    names = [lab.name(v) for v in range(n)]

    def row_key(asg, cols):
        return tuple((str(lab.name(v)), lab.state(v, asg[v])) for v in sorted(cols, key=lambda v: str(lab.name(v))))
    lat_sets = [()] + ([(0,)] if n >= 2 else []) + ([(n - 1,)] if n >= 3 else [])
    for lat in lat_sets:
        model = make_bn(ref, lab, latents=lat)
        for incl in ((False, True) if lat else (False,)):
            cols = [v for v in range(n) if incl or v not in lat]
            marg = joint.marginalize([v for v in range(n) if v not in cols])
            for size in ((2,) if g.get("size2") else (1, 2) if (n <= 2 or (g["style"] == "def" and not lat) or tier == "thorough") else (1,)):
                call = ["forward", list(lat), incl, size]
                if only is not None and only != call:
                    continue
                case = {"g": g, "call": call}
                exp = {}
                for rows in product(list(marg.table.items()), repeat=size):
                    key = tuple(row_key(dict(zip(marg.vars, k)), cols) for k, _ in rows)
                    w = F(1)
                    for _, p in rows:
                        w *= p
                    exp[key] = exp.get(key, F(0)) + w

                def fn():
                    df = BayesianModelSampling(model).forward_sample(size=size, include_latents=incl, show_progress=False, n_jobs=1)
                    if len(df) != size:
                        return ("ROWS", len(df))
                    if set(df.columns) != {lab.name(v) for v in cols}:
                        return ("COLS", tuple(sorted(map(str, df.columns))))
                    return frame_key(df)
                law, info = explore(fn)
                _law_check(st, "forward_sample", case, law, info, exp)
                if len(st.samples) < 1 and size == 2:
                    st.sample({"call": call, "model": g["bn"], "style": g["style"], "paths": info["paths"], "distinct_frames": len(law)})
    model = make_bn(ref, lab)
    # ---- likelihood weighting and rejection sampling, evidence of size 1 (thorough: 2)
    for e in subsets(range(n), g["emax"]):
        if not e:
            continue
        for states in product(*[range(ref.card[v]) for v in e]):
            evd = dict(zip(e, states))
            post_all, pe = full_post(joint, evd)
            ev_arg = [State(lab.name(v), lab.state(v, s)) for v, s in evd.items()]
            # mutilated network law for LW: evidence fixed, others follow P(x|pa); weight = prod_e P(e|pa)
            for size in ((1, 2) if (n <= 2 or (tier == "thorough" and len(e) == 1)) else (2,) if g.get("size2") else (1,)):
                call = ["lw", [list(x) for x in evd.items()], size]
                if only is not None and only != call:
                    continue
                case = {"g": g, "call": call}
                single = {}
                for k in product(*[range(ref.card[v]) for v in range(n)]):
                    a = dict(zip(range(n), k))
                    if any(a[v] != s for v, s in evd.items()):
                        continue
                    pr, w = F(1), F(1)
                    for v in range(n):
                        if v in evd:
                            w *= ref.p(v, a[v], a)
                        else:
                            pr *= ref.p(v, a[v], a)
                    if pr > 0:
                        single[k] = (pr, w)
                exp = {}
                for rows in product(list(single.items()), repeat=size):
                    key = tuple(row_key(dict(zip(range(n), k)), range(n)) + (("_weight", float(w)),) for k, (pr, w) in rows)
                    tot = F(1)
                    for _, (pr, w) in rows:
                        tot *= pr
                    exp[key] = exp.get(key, F(0)) + tot

                def fn():
                    df = BayesianModelSampling(model).likelihood_weighted_sample(evidence=ev_arg, size=size, show_progress=False, n_jobs=1)
                    if len(df) != size:
                        return ("ROWS", len(df))
                    rows = []
                    for i in range(len(df)):
                        r = tuple((str(c), _py(df[c].iloc[i])) for c in sorted([c for c in df.columns if c != "_weight"], key=str))
                        rows.append(r + (("_weight", round(float(df["_weight"].iloc[i]), 12)),))
                    return tuple(rows)
                exp = {tuple(r[:-1] + (("_weight", round(r[-1][1], 12)),) for r in k): v for k, v in exp.items()}
                law, info = explore(fn)
                _law_check(st, "likelihood_weighted_sample", case, law, info, exp)
            if pe is None or pe == 0:
                continue
            sizes = (1, 2) if ((n <= 2 and max(ref.card.values()) == 2) or (tier == "thorough" and n <= 2)) else (1,)
            for size in sizes:
                call = ["rejection", [list(x) for x in evd.items()], size]
                if only is not None and only != call:
                    continue
                case = {"g": g, "call": call}
                exp = {}
                for rows in product(list(post_all.table.items()), repeat=size):
                    key = tuple(row_key(dict(zip(post_all.vars, k)), range(n)) for k, _ in rows)
                    w = F(1)
                    for _, p in rows:
                        w *= p
                    if w > 0:
                        exp[key] = exp.get(key, F(0)) + w

                def fn():
                    df = BayesianModelSampling(model).rejection_sample(evidence=ev_arg, size=size, show_progress=False)
                    if len(df) != size:
                        return ("ROWS", len(df))
                    return frame_key(df)
                law, info = explore(fn, max_k=6 if tier == "quick" else 7, max_paths=800 if tier == "quick" else 4000)
                tot = sum(v for k, v in law.items() if not (isinstance(k, tuple) and k and k[0] == "EXC"))
                if tot > 0:
                    law = {k: v / tot for k, v in law.items()}  # conditional on termination within the horizon
                    _law_check(st, "rejection_sample", case, law, info, exp)
                else:
                    st.cap("horizon-cut-everything", site="rejection_sample", case=str(call))


def _kernel_check(st, site, case, gs, order, card, joint, names_of):
    """transition_models[var][other_states] == full conditional of the reference joint"""
    n = len(order)
    for vi, v in enumerate(order):
        others = [u for u in order if u != v]
        for tup in product(*[range(card[u]) for u in others]):
            evd = dict(zip(others, tup))
            post, pe = posterior(joint, [v], evd)
            st.evals += 1
            st.transitions += 1
            st.compared += 1
            if post is None:
                continue
            try:
                k = np.asarray(gs.transition_models[names_of[v]][tup], dtype=float)
            except Exception as ex:
                st.violation(site, "exception", case, repr(ex)[:200])
                return False
            exp = [float(post.table[(s,)]) for s in range(card[v])]
            if len(k) != len(exp) or max(abs(a - b) for a, b in zip(k, exp)) > 1e-9:
                st.violation(site, "wrong-kernel", dict(case, var=v, others=list(tup)), [float(x) for x in k], exp)
                return False
    return True


def _gibbs_chain(st, site, case, mk, order, card, joint, names_of):
    from pgmpy.factors.discrete import State

    n = len(order)
    for start in product(*[range(card[v]) for v in order]):
        if joint.get(dict(zip(order, start))) == 0:
            continue
        size = 3 if n <= 2 else 2
        # reference chain law: sweep variables in order, each from its full conditional
        exp = {}

        def rec(state, steps, w, hist):
            if steps == 0:
                exp[tuple(hist)] = exp.get(tuple(hist), F(0)) + w
                return

            def sweep(vi, s, w2):
                if vi == n:
                    rec(s, steps - 1, w2, hist + [tuple(s)])
                    return
                v = order[vi]
                evd = {u: s[i] for i, u in enumerate(order) if u != v}
                post, _ = posterior(joint, [v], evd)
                for k in range(card[v]):
                    p = post.table[(k,)]
                    if p > 0:
                        s2 = list(s)
                        s2[vi] = k
                        sweep(vi + 1, s2, w2 * p)
            sweep(0, list(state), w)
        rec(list(start), size - 1, F(1), [tuple(start)])

        def fn():
            gs = mk()
            df = gs.sample(start_state=[State(names_of[v], s) for v, s in zip(order, start)], size=size)
            if len(df) != size:
                return ("ROWS", len(df))
            return tuple(tuple(int(df[str(names_of[v])].iloc[i]) if str(names_of[v]) in df.columns else int(df[names_of[v]].iloc[i]) for v in order) for i in range(len(df)))
        law, info = explore(fn)
        if not _law_check(st, site, dict(case, start=list(start)), law, info, exp):
            return


def _gibbs_bn(st, g, tier, only=None):
    from pgmpy.sampling import GibbsSampling

    ref = bn_from_desc(g["bn"])
    lab = Labeling(ref.n, ref.card, "str", None, g["style"])
    model = make_bn(ref, lab)
    joint = ref.joint()
    case = {"g": g, "call": ["gibbs-bn"]}
    try:
        gs = GibbsSampling(model)
        order = [lab.id[v] for v in gs.variables]
    except Exception as ex:
        st.violation("GibbsSampling(BN)", "exception", case, repr(ex)[:200])
        return
    names_of = {v: lab.name(v) for v in range(ref.n)}
    if _kernel_check(st, "GibbsSampling(BN).transition_models", case, gs, order, ref.card, joint, names_of):
        _gibbs_chain(st, "GibbsSampling(BN).sample", case, lambda: GibbsSampling(model), order, ref.card, joint, names_of)
    if len(st.samples) < 1:
        st.sample({"gibbs": g})


def _gibbs_mn(st, g, tier, only=None):
    from pgmpy.sampling import GibbsSampling

    n, edges = g["n"], [tuple(e) for e in g["edges"]]
    card, facs = ref_mn(n, edges, g["card"], "edge+unary")
    lab = Labeling(n, card, "str", None, "def")
    joint = joint_of(n, card, facs).normalize()
    model = make_mn(n, edges, facs, lab)
    case = {"g": g, "call": ["gibbs-mn"]}
    try:
        gs = GibbsSampling(model)
        order = [lab.id[v] for v in gs.variables]
    except Exception as ex:
        st.violation("GibbsSampling(MN)", "exception", case, repr(ex)[:200])
        return
    names_of = {v: lab.name(v) for v in range(n)}
    if _kernel_check(st, "GibbsSampling(MN).transition_models", case, gs, order, card, joint, names_of):
        _gibbs_chain(st, "GibbsSampling(MN).sample", case, lambda: GibbsSampling(model), order, card, joint, names_of)


def _simulate(st, g, tier, only=None):
    from pgmpy.factors.discrete import TabularCPD

    ref = bn_from_desc(g["bn"])
    n = ref.n
    lab = Labeling(n, ref.card, "str", None, g["style"])
    model = make_bn(ref, lab)
    joint = ref.joint()

    def row_key(asg):
        return tuple((str(lab.name(v)), lab.state(v, asg[v])) for v in sorted(range(n), key=lambda v: str(lab.name(v))))

    def run(kwargs):
        def fn():
            df = model.simulate(n_samples=1, show_progress=False, **kwargs)
            if len(df) != 1:
                return ("ROWS", len(df))
            cols = [c for c in df.columns if not str(c).startswith("__")]
            if set(cols) != {lab.name(v) for v in range(n)}:
                return ("COLS", tuple(sorted(map(str, df.columns))))
            return frame_key(df, cols)
        return explore(fn)
    # plain
    call = ["simulate"]
    if only is None or only == call:
        law, info = run({})
        _law_check(st, "simulate", {"g": g, "call": call}, law, info, {(row_key(dict(zip(joint.vars, k))),): p for k, p in joint.table.items() if p > 0})
    for x in range(n):
        for s in range(ref.card[x]):
            # do(x=s): truncated factorisation
            call = ["simulate-do", x, s]
            if only is None or only == call:
                exp = {}
                for k in product(*[range(ref.card[v]) for v in range(n)]):
                    a = dict(zip(range(n), k))
                    if a[x] != s:
                        continue
                    w = F(1)
                    for v in range(n):
                        if v != x:
                            w *= ref.p(v, a[v], a)
                    if w > 0:
                        exp[(row_key(a),)] = w
                law, info = run({"do": {lab.name(x): lab.state(x, s)}})
                tot = sum(v for k, v in law.items() if not (k and k[0] == "EXC"))
                if tot > 0:
                    _law_check(st, "simulate(do)", {"g": g, "call": call}, {k: v / tot for k, v in law.items()}, info, exp)
            # evidence x=s: posterior
            call = ["simulate-evidence", x, s]
            post, pe = full_post(joint, {x: s})
            if post is not None and (only is None or only == call):
                law, info = run({"evidence": {lab.name(x): lab.state(x, s)}})
                tot = sum(v for k, v in law.items() if not (k and k[0] == "EXC"))
                if tot > 0:
                    _law_check(st, "simulate(evidence)", {"g": g, "call": call}, {k: v / tot for k, v in law.items()}, info,
                               {(row_key(dict(zip(post.vars, k))),): p for k, p in post.table.items() if p > 0})
        # virtual evidence on x with likelihood (1, 1/2)
        lik = [F(1), F(1, 2)]
        call = ["simulate-virtual-evidence", x]
        post, pe = full_post(joint, {}, [(x, lik)])
        if only is None or only == call:
            ve = TabularCPD(lab.name(x), 2, [[1.0], [0.5]], state_names={lab.name(x): list(lab.states[x])})
            law, info = run({"virtual_evidence": [ve]})
            tot = sum(v for k, v in law.items() if not (k and k[0] == "EXC"))
            if tot > 0:
                _law_check(st, "simulate(virtual_evidence)", {"g": g, "call": call}, {k: v / tot for k, v in law.items()}, info,
                           {(row_key(dict(zip(post.vars, k))),): p for k, p in post.table.items() if p > 0})
    # missing values: structural check with the real RNG
    call = ["simulate-missing"]
    if only is None or only == call:
        st.evals += 1
        try:
            df = model.simulate(n_samples=6, seed=3, include_missing=True, missing_prob=0.5, show_progress=False)
            st.compared += 1
            ok = len(df) == 6 and set(df.columns) == {lab.name(v) for v in range(n)}
            for c in df.columns:
                for x_ in df[c]:
                    if not (x_ != x_ or x_ is None or x_ in lab.states[lab.id[c]]):
                        ok = False
            if not ok:
                st.violation("simulate(include_missing)", "malformed-frame", {"g": g, "call": call}, df.astype(str).values.tolist(), None)
        except Exception as ex:
            st.violation("simulate(include_missing)", "exception", {"g": g, "call": call}, repr(ex)[:200])


def _seed(st, g, tier, only=None):
    """a fixed seed reproduces the same samples: two engines in this process and one fresh process"""
    import json
    import os
    import subprocess
    import sys

    from pgmpy.factors.discrete import State
    from pgmpy.sampling import BayesianModelSampling, GibbsSampling

    d = {"n": 3, "edges": [[0, 1], [0, 2], [1, 2]], "card": [2, 3, 2], "cols": {"fp": 0}}
    ref = bn_from_desc(d)
    lab = Labeling(3, ref.card, "str", None, "str")

    def safe(fn):
        try:
            return fn()
        except Exception as ex:  # a sampler that raises on a valid model is itself a violation (reported below)
            return "EXC " + repr(ex)[:160]

    def answers():
        out = {}
        for seed in (0, 1, 2):
            m = make_bn(ref, lab)
            out[f"fs{seed}"] = safe(lambda: BayesianModelSampling(m).forward_sample(size=5, seed=seed, show_progress=False, n_jobs=1).astype(str).values.tolist())
            out[f"rs{seed}"] = safe(lambda: BayesianModelSampling(m).rejection_sample(evidence=[State("C", "c1")], size=4, seed=seed, show_progress=False).astype(str).values.tolist())
            out[f"lw{seed}"] = safe(lambda: BayesianModelSampling(m).likelihood_weighted_sample(evidence=[State("A", "a0")], size=4, seed=seed, show_progress=False, n_jobs=1).round(9).astype(str).values.tolist())
            out[f"gb{seed}"] = safe(lambda: GibbsSampling(m).sample(size=5, seed=seed).astype(str).values.tolist())
            out[f"sim{seed}"] = safe(lambda: m.simulate(n_samples=4, seed=seed, show_progress=False).astype(str).values.tolist())
        return out
    if os.environ.get("C07_SEED_WORKER"):
        print("ANSWERS " + json.dumps(answers()))
        return
    a, b = answers(), answers()
    st.states += 1
    st.evals += 30
    st.compared += 15
    for k in a:
        st.nt(k)
        if isinstance(a[k], str) and a[k].startswith("EXC "):
            st.violation("seed-reproducibility", "exception", {"g": g, "call": ["seed", k]}, a[k], None)
        if a[k] != b[k]:
            st.violation("seed-reproducibility", "differs-between-engines", {"g": g, "call": ["seed", k]}, a[k], b[k])
    env = dict(os.environ, C07_SEED_WORKER="1")
    root = os.path.dirname(os.path.dirname(os.path.dirname(os.path.abspath(__file__))))
    p = subprocess.run([sys.executable, "-W", "ignore", "-c", "from mc.run import _quiet; _quiet(); from mc.props import c07; from mc.stats import Stats; c07._seed(Stats(), {}, 'quick')"],
                       capture_output=True, text=True, cwd=root, env=env)
    line = [l for l in p.stdout.splitlines() if l.startswith("ANSWERS ")]
    if not line:
        st.harness_errors.append({"group": g, "trace": p.stderr[-800:]})
        return
    c = json.loads(line[0][8:])
    st.compared += 15
    for k in a:
        if a[k] != c[k]:
            st.violation("seed-reproducibility", "differs-between-processes", {"g": g, "call": ["seed", k]}, a[k], c[k])
