"""C09: writing a model to a file and reading it back returns the same model (E1)."""
import os
import tempfile
from itertools import permutations, product

import numpy as np

from mc.gen.dags import all_dags, all_ugraphs
from mc.stats import Stats

EXPLORER = "E1"
RULE = ("E1: every labelled DAG on <=3 nodes (+ a star with 5 four-state parents: 4096 table entries, above numpy's print threshold) x "
        "cardinality vectors from {1,2,3,4} x every declared parent order x tables built from a magnitude alphabet {0, 1e-12, 1e-7, "
        "1e-5, 0.001, 1/3, 0.5, 1-1e-12, 1} x identifier pools for variable and state names (format keywords as substrings); "
        "formats BIF, XMLBIF, UAI, NET through string writer->reader and save/load on temp files; Markov networks for UAI. "
        "oracle: same variables (positional var_i for UAI in the documented (cardinality, name) order), edges, state names as "
        "strings, and P(child=s | parents=c) for every NAMED assignment: exactly for BIF/XMLBIF/UAI, |d|<=5e-5 for NET. "
        "non-trivial = distinct (graph, cards, parent order, name pool) with >=2 parents of different cardinality or a keyword name")
BOUNDS = {"quick": "n<=3 DAGs x 3 card vectors x all parent orders x 2 name pools x 4 formats; star(5 parents) once per format; hash seeds: see C16",
          "thorough": "4 card vectors, 3 name pools, n_jobs=2 for BIF, PYTHONHASHSEED {1,2} sub-process runs; 4-node models with a three-parent node x 3 card vectors x all 6 parent orders"}
EXHAUSTIVE = {"quick": True, "thorough": True}
ASSUMPTIONS = ["variable and state names are plain identifiers", "NET keeps four decimals (documented)"]

POOLS = {
    "plain": (["alpha", "beta", "gamma", "delta", "eps", "zeta"], ["s0", "s1", "s2", "s3"]),
    "keywords": (["xvariable", "probability_a", "tableB", "default1", "network", "statey"], ["yes", "no", "table1", "state2"]),
    "short": (["A", "B", "C", "D", "E", "F"], ["lo", "mid", "hi", "top"]),
    # keywords as SUFFIXES (followed by white space / punctuation in the file)
    "suffix": (["timetable", "is_default", "xprobability", "mynetwork", "avariable", "subproperty"], ["notable", "nodefault", "restate", "xtable"]),
}
MAGS = {1: [[1.0]],
        2: [[1e-12, 1 - 1e-12], [0.0, 1.0], [1.0 / 3, 2.0 / 3], [1e-7, 1 - 1e-7], [0.5, 0.5], [0.001, 0.999], [1 - 1e-5, 1e-5]],
        3: [[1e-12, 1.0 / 3, 2.0 / 3 - 1e-12], [0.0, 0.0, 1.0], [0.001, 1e-5, 1 - 0.001 - 1e-5], [0.5, 0.25, 0.25], [1e-7, 0.5, 0.5 - 1e-7]],
        4: [[0.25, 0.25, 0.25, 0.25], [1e-12, 1e-7, 0.001, 1 - 0.001 - 1e-7 - 1e-12], [0.0, 1.0, 0.0, 0.0], [1.0 / 3, 1.0 / 3, 1.0 / 3 - 1e-5, 1e-5]]}
CARDV = [(2, 3, 2), (3, 2, 4), (1, 2, 3), (4, 4, 2)]
FORMATS = ["bif", "xmlbif", "uai", "net"]


def groups(tier, seed):
    out = []
    cvs = CARDV[:3] if tier == "quick" else CARDV
    pools = ["plain", "keywords", "suffix"] if tier == "quick" else list(POOLS)
    for n in (1, 2, 3):
        for e in all_dags(n):
            for ci, cv in enumerate(cvs):
                for pool in pools:
                    if tier == "quick" and pool != "plain" and ci == 2:
                        continue
                    out.append({"part": "bn", "n": n, "edges": [list(x) for x in e], "card": list(cv[:n]), "pool": pool})
    out.append({"part": "star"})
    if tier == "thorough":
        # a node with THREE parents of different cardinalities, every parent order
        for e in ([[0, 3], [1, 3], [2, 3]], [[0, 3], [1, 3], [2, 3], [0, 1]], [[0, 1], [0, 2], [1, 2], [0, 3], [1, 3], [2, 3]]):
            for cv in ([2, 3, 2, 2], [3, 2, 4, 2], [2, 2, 3, 3]):
                for pool in ("plain", "keywords"):
                    out.append({"part": "bn", "n": 4, "edges": e, "card": cv, "pool": pool})
    for n in (2, 3):
        for e in all_ugraphs(n):
            out.append({"part": "mn", "n": n, "edges": [list(x) for x in e], "card": [2, 3, 2][:n]})
    return out


def run_group(g, tier):
    st = Stats()
    if g["part"] == "bn":
        _bn(st, g, tier)
    elif g["part"] == "star":
        _star(st)
    else:
        _mn(st, g)
    return st


def replay(case):
    st = Stats()
    g = case["g"]
    if g["part"] == "bn":
        _bn(st, g, "quick")
    elif g["part"] == "star":
        _star(st)
    else:
        _mn(st, g)
    keys = ("site", "fmt", "orders", "via")
    return [v for v in st.violations if all(v["case"].get(k) == case.get(k) for k in keys)][:5]


def build(n, edges, card, pool, orders, salt=0):
    """returns (model, spec) with spec[var] = (parents list (declared order), states, {parent-state-names tuple: [p...]})"""
    from pgmpy.factors.discrete import TabularCPD
    from pgmpy.models import BayesianNetwork

    vnames, snames = POOLS[pool]
    names = vnames[:n]
    states = {names[v]: [f"{snames[k]}" if n == 0 else f"{snames[k]}" for k in range(card[v])] for v in range(n)}
    m = BayesianNetwork()
    m.add_nodes_from(names)
    m.add_edges_from([(names[a], names[b]) for a, b in edges])
    spec = {}
    for v in range(n):
        pa = [a for a, b in edges if b == v]
        pa = [pa[i] for i in orders.get(v, range(len(pa)))] if pa else []
        cols, table = [], {}
        for j, conf in enumerate(product(*[range(card[p]) for p in pa])):
            col = MAGS[card[v]][(j + v + salt) % len(MAGS[card[v]])]
            cols.append(col)
            table[tuple(states[names[p]][s] for p, s in zip(pa, conf))] = list(col)
        vals = np.array(cols, dtype=float).T.reshape(card[v], -1)
        kw = dict(evidence=[names[p] for p in pa], evidence_card=[card[p] for p in pa]) if pa else {}
        m.add_cpds(TabularCPD(names[v], card[v], vals, state_names={names[x]: states[names[x]] for x in [v] + pa}, **kw))
        spec[names[v]] = ([names[p] for p in pa], states[names[v]], table)
    return m, spec


def roundtrip(fmt, model, via, n_jobs=1):
    from pgmpy.models import BayesianNetwork
    from pgmpy.readwrite import BIFReader, BIFWriter, NETReader, NETWriter, UAIReader, UAIWriter, XMLBIFReader, XMLBIFWriter

    if via == "string":
        if fmt == "bif":
            return BIFReader(string=str(BIFWriter(model)), n_jobs=n_jobs).get_model()
        if fmt == "xmlbif":
            s = XMLBIFWriter(model).__str__()
            return XMLBIFReader(string=s if isinstance(s, (str, bytes)) else str(s)).get_model()
        if fmt == "uai":
            return UAIReader(string=str(UAIWriter(model))).get_model()
        return NETReader(string=str(NETWriter(model))).get_model()
    d = tempfile.mkdtemp(prefix="c09_")
    try:
        path = os.path.join(d, "m." + fmt)
        if fmt == "net":  # save/load document bif, uai and xmlbif only
            NETWriter(model).write_net(path)
            return NETReader(path=path).get_model()
        model.save(path, filetype=fmt)
        return BayesianNetwork.load(path, filetype=fmt, **({"n_jobs": n_jobs} if fmt == "bif" else {}))
    finally:
        for f in os.listdir(d):
            os.remove(os.path.join(d, f))
        os.rmdir(d)


def compare(model2, spec, fmt):
    """None or a description of the first difference"""
    names = sorted(spec)
    if model2 is None:
        return "reader returned None"
    if fmt == "uai":
        order = sorted(names, key=lambda v: (str(len(spec[v][1])), v))
        ren = {v: f"var_{i}" for i, v in enumerate(order)}
    else:
        ren = {v: v for v in names}
    if set(map(str, model2.nodes())) != set(ren.values()):
        return f"variables {sorted(map(str, model2.nodes()))} != {sorted(ren.values())}"
    exp_edges = {(ren[p], ren[v]) for v in names for p in spec[v][0]}
    if {(str(a), str(b)) for a, b in model2.edges()} != exp_edges:
        return f"edges {sorted(model2.edges())} != {sorted(exp_edges)}"
    tol = 5e-5 if fmt == "net" else 0.0
    for v in names:
        pa, sts, table = spec[v]
        c = model2.get_cpds(ren[v])
        if c is None:
            return f"no CPD for {ren[v]}"
        if set(map(str, c.variables[1:])) != {ren[p] for p in pa}:
            return f"parents of {ren[v]}: {c.variables[1:]}"
        vals = np.asarray(c.values, dtype=float)

        def st_index(var_orig, state):
            lst = [str(s) for s in c.state_names[ren[var_orig]]]
            if fmt == "uai":
                return spec[var_orig][1].index(state)  # UAI has no state names: positional
            return lst.index(str(state))
        if fmt != "uai" and [str(s) for s in c.state_names[ren[v]]] != [str(s) for s in sts]:
            return f"states of {v}: {c.state_names[ren[v]]} != {sts}"
        for conf, col in table.items():
            for k, pexp in enumerate(col):
                idx = [None] * len(c.variables)
                try:
                    idx[0] = st_index(v, sts[k])
                    for p, s in zip(pa, conf):
                        idx[list(map(str, c.variables)).index(ren[p])] = st_index(p, s)
                    got = float(vals[tuple(idx)])
                except Exception as ex:
                    return f"cannot index P({v}={sts[k]} | {conf}): {ex!r}"[:200]
                if abs(got - pexp) > tol:
                    return f"P({v}={sts[k]} | {dict(zip(pa, conf))}) = {got!r} != {pexp!r}"
    return None


def _bn(st, g, tier):
    n, edges, card, pool = g["n"], [tuple(e) for e in g["edges"]], g["card"], g["pool"]
    pa_of = {v: [a for a, b in edges if b == v] for v in range(n)}
    order_sets = [dict(zip(pa_of, o)) for o in product(*[list(permutations(range(len(pa_of[v])))) or [()] for v in pa_of])]
    st.states += 1
    for orders in order_sets:
        okey = {str(k): list(v) for k, v in orders.items()}
        try:
            model, spec = build(n, edges, card, pool, orders)
            model.check_model()
        except Exception as ex:
            st.harness_errors.append({"group": g, "trace": repr(ex)})
            return
        if pool in ("keywords", "suffix") or any(len({card[p] for p in pa_of[v]}) >= 2 for v in pa_of):
            st.nt((tuple(edges), tuple(card), pool, str(okey)))
        for fmt in FORMATS:
            for via in ("string", "file"):
                case = {"g": g, "site": fmt + "-roundtrip", "fmt": fmt, "orders": okey, "via": via}
                st.evals += 1
                st.transitions += 1
                try:
                    m2 = roundtrip(fmt, model, via)
                except Exception as ex:
                    st.violation(fmt + "-roundtrip", "exception", case, repr(ex)[:300], None, detail={"pool": pool, "has_tiny": True})
                    continue
                st.compared += 1
                d = compare(m2, spec, fmt)
                if d:
                    st.violation(fmt + "-roundtrip", "model-differs", case, None, d, detail={"pool": pool})
                else:
                    st.outcome((fmt, len(edges)))
    if len(st.samples) < 1:
        st.sample({"model": g, "formats": FORMATS})


def _star(st):
    """one child with five 4-state parents: 4 * 4^5 = 4096 entries (> numpy's print threshold of 1000)"""
    n = 6
    edges = [(p, 5) for p in range(5)]
    card = [4, 4, 4, 4, 4, 4]
    g = {"part": "star"}
    model, spec = build(n, edges, card, "plain", {})
    st.states += 1
    st.nt("star")
    for fmt in FORMATS:
        case = {"g": g, "site": fmt + "-roundtrip", "fmt": fmt, "orders": {}, "via": "string"}
        st.evals += 1
        st.transitions += 1
        try:
            m2 = roundtrip(fmt, model, "string")
        except Exception as ex:
            st.violation(fmt + "-roundtrip", "exception", case, repr(ex)[:300], None, detail={"pool": "plain", "star": True})
            continue
        st.compared += 1
        d = compare(m2, spec, fmt)
        if d:
            st.violation(fmt + "-roundtrip", "model-differs", case, None, d, detail={"pool": "plain", "star": True})


def _mn(st, g):
    from pgmpy.factors.discrete import DiscreteFactor
    from pgmpy.models import MarkovNetwork
    from pgmpy.readwrite import UAIReader, UAIWriter

    n, edges, card = g["n"], [tuple(e) for e in g["edges"]], g["card"]
    names = POOLS["plain"][0][:n]
    m = MarkovNetwork()
    m.add_nodes_from(names)
    m.add_edges_from([(names[a], names[b]) for a, b in edges])
    facs = []
    for fi, (a, b) in enumerate(edges):
        vals = [round(0.1 + 0.37 * ((3 * i + fi) % 7), 6) + (1e-7 if i == 1 else 0) for i in range(card[a] * card[b])]
        f = DiscreteFactor([names[a], names[b]], [card[a], card[b]], vals)
        facs.append(((a, b), vals))
        m.add_factors(f)
    st.states += 1
    case = {"g": g, "site": "uai-mn-roundtrip", "fmt": "uai", "orders": {}, "via": "string"}
    st.evals += 1
    st.transitions += 1
    st.nt(("mn", tuple(edges)))
    try:
        m2 = UAIReader(string=str(UAIWriter(m))).get_model()
    except Exception as ex:
        st.violation("uai-mn-roundtrip", "exception", case, repr(ex)[:300])
        return
    order = sorted(names, key=lambda v: (str(card[names.index(v)]), v))
    ren = {v: f"var_{i}" for i, v in enumerate(order)}
    st.compared += 1
    bad = None
    if {frozenset(map(str, e)) for e in m2.edges()} != {frozenset((ren[names[a]], ren[names[b]])) for a, b in edges}:
        bad = f"edges {sorted(map(sorted, m2.edges()))}"
    else:
        for (a, b), vals in facs:
            found = False
            for f in m2.get_factors():
                if set(map(str, f.variables)) == {ren[names[a]], ren[names[b]]}:
                    arr = np.asarray(f.values, dtype=float)
                    if list(map(str, f.variables)) != [ren[names[a]], ren[names[b]]]:
                        arr = arr.T
                    if arr.shape == (card[a], card[b]) and np.abs(arr.reshape(-1) - np.array(vals)).max() == 0:
                        found = True
            if not found:
                bad = f"factor over {names[a]},{names[b]} not reproduced"
    if bad:
        st.violation("uai-mn-roundtrip", "model-differs", case, None, bad)
