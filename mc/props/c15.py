"""C15: models stay structurally consistent under any edit history (E2: BFS over histories)."""
import itertools
import json

import numpy as np

from mc.stats import Stats

EXPLORER = "E2"
RULE = ("E2: breadth-first search over all histories of public editing operations up to the depth bound, starting from an "
        "empty model; every transition executes the real method on real objects rebuilt by replaying the history (so "
        "aliasing between a copy and its source is real); canonical-state de-duplication (nodes, edges, latents, CPD "
        "scopes/tables/state names per handle + aliasing signature between handles); a dict-based reference model is "
        "stepped in lock-step. systems: BayesianNetwork (universe {a,b,c} and {a,b}), DynamicBayesianNetwork, "
        "JunctionTree, MarkovNetwork, DAG(ebunch) construction. non-trivial = distinct transitions that were rejected "
        "(raised) or that act on a model with >=1 CPD / >=2 handles")
BOUNDS = {"quick": "BN{a,b,c}: depth 3 from the empty model (full alphabet, 2 handles) and depth 2 from the seeded state a->b,a->c with CPDs; BN{a,b}: depth 4; DBN depth 3; JT depth 3; MN depth 3; DAG(ebunch): all edge lists on <=3 nodes (incl. self loops)",
          "thorough": "BN{a,b,c}: depth 4 (empty start), depth 4 (seeded start); BN{a,b}: depth 6; DBN depth 5; JT depth 5; MN depth 5"}
EXHAUSTIVE = {"quick": True, "thorough": True}
ASSUMPTIONS = ["numpy.random is re-seeded by the harness before get_random_cpds so that histories are replayable",
               "at most two handles (the original and one copy) are alive"]

DEPTH = {"quick": {"bn3": 3, "bn3s": 2, "bn2": 4, "dbn": 3, "jt": 3, "mn": 3}, "thorough": {"bn3": 4, "bn3s": 4, "bn2": 6, "dbn": 5, "jt": 5, "mn": 5}}


def custom_explore(tier, seed):
    from mc.histories import bfs

    total = Stats()
    d = DEPTH[tier]
    for label, fn in (("bn3", "expand_bn3"), ("bn3s", "expand_bn3s"), ("bn2", "expand_bn2"), ("dbn", "expand_dbn"), ("jt", "expand_jt"), ("mn", "expand_mn")):
        st = bfs("mc.props.c15", fn, d[label], label)
        total.merge(st)
        total.states += 0
    st = Stats()
    _dag_ctor(st)
    total.merge(st)
    total.groups = 6
    return total


def replay(case):
    st = Stats()
    if case.get("system") == "dagctor":
        _dag_ctor(st, only=case["ebunch"])
        return st.violations[:5]
    fn = {"bn3": expand_bn3, "bn3s": expand_bn3, "bn2": expand_bn2, "dbn": expand_dbn, "jt": expand_jt, "mn": expand_mn}[case["system"]]
    s, _ = fn(case["history"], only=case["event"])
    return [v for v in s.violations][:5]


# =============================================================== BayesianNetwork
def _cpd_for(model_parents, var, kind):
    """kind: cons -> parents = current graph parents (sorted); root -> no parents; unk -> parent 'z' unknown to the universe"""
    from pgmpy.factors.discrete import TabularCPD

    if kind == "cons":
        pa = sorted(model_parents)
    elif kind == "root":
        pa = []
    else:
        pa = ["z"]
    ncol = 2 ** len(pa)
    base = {"a": 1, "b": 2, "c": 3}[var]
    top = [(base + 2 * j + 1) / 16.0 for j in range(ncol)]
    vals = [top, [1 - x for x in top]]
    sn = {v: [v + "0", v + "1"] for v in [var] + pa}
    if pa:
        return TabularCPD(var, 2, vals, evidence=pa, evidence_card=[2] * len(pa), state_names=sn)
    return TabularCPD(var, 2, vals, state_names=sn)


def _bn_events(universe, nh):
    evs = []
    for h in range(nh):
        for x in universe:
            evs.append(["add_node", h, x])
            evs.append(["add_latent", h, x])
            evs.append(["remove_node", h, x])
            evs.append(["remove_cpds", h, x])
            for k in ("cons", "root", "unk"):
                evs.append(["add_cpd", h, x, k])
            evs.append(["do", h, x, True])
            if nh == 1:
                evs.append(["do", h, x, False])
            for y in universe:
                evs.append(["add_edge", h, x, y])
                if h == 0:
                    evs.append(["add_edge_w", h, x, y])
        evs.append(["random_cpds", h, True])
        if nh == 1:
            evs.append(["random_cpds", h, False])
            evs.append(["copy", h])
    evs.append(["remove_nodes_from", 0, list(universe[:2])])
    evs.append(["add_edges_from", 0, [[universe[0], universe[1]], [universe[1], universe[0]]]])
    return evs


def _bn_apply(world, ev):
    """execute the real operation; returns nothing, raises on rejection"""
    op, h = ev[0], ev[1]
    m = world[h]
    if op == "add_node":
        m.add_node(ev[2])
    elif op == "add_latent":
        m.add_node(ev[2], latent=True)
    elif op == "remove_node":
        m.remove_node(ev[2])
    elif op == "remove_nodes_from":
        m.remove_nodes_from(ev[2])
    elif op == "remove_cpds":
        m.remove_cpds(ev[2])
    elif op == "add_cpd":
        pa = list(m.predecessors(ev[2])) if ev[2] in m.nodes() else []
        m.add_cpds(_cpd_for(pa, ev[2], ev[3]))
    elif op == "add_edge":
        m.add_edge(ev[2], ev[3])
    elif op == "add_edges_from":
        m.add_edges_from([tuple(e) for e in ev[2]])
    elif op == "add_edge_w":
        # the same single edge through the bulk API with its optional weights argument
        m.add_edges_from([(ev[2], ev[3])], weights=[0.5])
    elif op == "do":
        r = m.do([ev[2]], inplace=ev[3])
        if not ev[3]:
            world.append(r)
    elif op == "random_cpds":
        np.random.seed(1234)
        r = m.get_random_cpds(n_states=2, inplace=ev[2])
        if not ev[2]:
            world.append(r)
    elif op == "copy":
        world.append(m.copy())
    else:
        raise AssertionError(ev)


def _cpd_canon(c):
    vals = np.asarray(c.values, dtype=float)
    return (str(c.variable), tuple(map(str, c.variables)), tuple(int(x) for x in c.cardinality),
            tuple(np.round(vals.reshape(-1), 9).tolist()), json.dumps({str(k): list(map(str, v)) for k, v in c.state_names.items()}, sort_keys=True))


def _bn_canon_handle(m):
    return (tuple(sorted(map(str, m.nodes()))), tuple(sorted((str(a), str(b)) for a, b in m.edges())),
            tuple(sorted(map(str, m.latents))), tuple(sorted(_cpd_canon(c) for c in m.cpds)))


def _alias_sig(world):
    if len(world) < 2:
        return ()
    a, b = world[0], world[1]
    sig = [a.latents is b.latents, a.cpds is b.cpds, a.cardinalities is b.cardinalities, a._adj is b._adj, a._node is b._node]
    ida = {id(c) for c in a.cpds}
    sig.append(any(id(c) in ida for c in b.cpds))
    sig.append(any(np.shares_memory(x.values, y.values) for x in a.cpds for y in b.cpds if isinstance(x.values, np.ndarray) and isinstance(y.values, np.ndarray)))
    return tuple(sig)


def _bn_canon(world):
    return (tuple(_bn_canon_handle(m) for m in world), _alias_sig(world))


# ---- reference model: plain dicts ------------------------------------------------
class RefNet:
    def __init__(self):
        self.nodes, self.edges, self.latents = set(), set(), set()
        self.cpds = {}  # var -> (parents tuple, {parent-state-tuple: [p0, p1]})

    def clone(self):
        r = RefNet()
        r.nodes, r.edges, r.latents = set(self.nodes), set(self.edges), set(self.latents)
        r.cpds = {v: (pa, {k: list(c) for k, c in t.items()}) for v, (pa, t) in self.cpds.items()}
        return r

    def parents(self, v):
        return {a for a, b in self.edges if b == v}

    def has_path(self, s, t):
        seen, stack = {s}, [s]
        while stack:
            x = stack.pop()
            if x == t:
                return True
            for a, b in self.edges:
                if a == x and b not in seen:
                    seen.add(b)
                    stack.append(b)
        return False

    def drop_parent(self, v, p):
        """documented TabularCPD.marginalize: sum the parent out, renormalise columns"""
        pa, t = self.cpds[v]
        if p not in pa:
            return
        i = pa.index(p)
        new = {}
        for k, col in t.items():
            kk = k[:i] + k[i + 1:]
            acc = new.setdefault(kk, [0.0] * len(col))
            for j, x in enumerate(col):
                acc[j] += x
        for kk, col in new.items():
            z = sum(col)
            new[kk] = [x / z for x in col]
        self.cpds[v] = (pa[:i] + pa[i + 1:], new)

    def canon(self):
        cp = []
        for v, (pa, t) in self.cpds.items():
            cp.append((v, tuple(sorted(pa)), tuple(sorted((tuple(sorted(zip(pa, k))), tuple(round(x, 9) for x in col)) for k, col in t.items()))))
        return (tuple(sorted(self.nodes)), tuple(sorted(self.edges)), tuple(sorted(self.latents)), tuple(sorted(cp)))


def _impl_as_ref(m):
    """read the implementation's handle in the reference model's canonical form"""
    cp = []
    for c in m.cpds:
        pa = tuple(map(str, c.variables[1:]))
        vals = np.asarray(c.values, dtype=float)
        t = []
        for k in itertools.product(*[range(int(x)) for x in c.cardinality[1:]]):
            col = tuple(round(float(vals[(j,) + k]), 9) for j in range(int(c.cardinality[0])))
            t.append((tuple(sorted(zip(pa, k))), col))
        cp.append((str(c.variable), tuple(sorted(pa)), tuple(sorted(t))))
    return (tuple(sorted(map(str, m.nodes()))), tuple(sorted((str(a), str(b)) for a, b in m.edges())),
            tuple(sorted(map(str, m.latents))), tuple(sorted(cp)))


def _ref_cpd(var, parents, kind):
    c = _cpd_for(parents, var, kind)
    pa = tuple(map(str, c.variables[1:]))
    vals = np.asarray(c.values, dtype=float)
    t = {}
    for k in itertools.product(*[range(2)] * len(pa)):
        t[k] = [float(vals[(j,) + k]) for j in range(2)]
    return pa, t


def _ref_step(rw, ev):
    """returns 'accept' | 'reject' | 'either' and mutates rw (list of RefNet) when the effect is defined.
    For 'either' the reference effect is applied only if the implementation accepted (caller passes that in)."""
    op, h = ev[0], ev[1]
    r = rw[h]
    if op in ("add_node", "add_latent"):
        r.nodes.add(ev[2])
        if op == "add_latent":
            r.latents.add(ev[2])
        return "accept"
    if op in ("add_edge", "add_edge_w"):
        u, v = ev[2], ev[3]
        if u == v or (u in r.nodes and v in r.nodes and r.has_path(v, u)):
            return "reject"
        r.nodes |= {u, v}
        r.edges.add((u, v))
        return "accept"
    if op == "remove_node":
        x = ev[2]
        if x not in r.nodes:
            return "reject"
        for c in [b for a, b in r.edges if a == x]:
            if c in r.cpds:
                if x not in r.cpds[c][0]:
                    # stale child CPD that does not mention the removed parent: implementation may reject
                    return "unspecified"
        for c in [b for a, b in r.edges if a == x]:
            if c in r.cpds:
                r.drop_parent(c, x)
        r.cpds.pop(x, None)
        r.nodes.discard(x)
        r.latents.discard(x)
        r.edges = {(a, b) for a, b in r.edges if x not in (a, b)}
        return "accept"
    if op == "remove_cpds":
        if ev[2] not in r.cpds:
            return "reject"
        del r.cpds[ev[2]]
        return "accept"
    if op == "add_cpd":
        x, kind = ev[2], ev[3]
        if x not in r.nodes or kind == "unk":
            return "reject"
        r.cpds[x] = _ref_cpd(x, sorted(r.parents(x)), kind)
        return "accept"
    if op == "copy":
        rw.append(r.clone())
        return "accept"
    if op == "do":
        x, inplace = ev[2], ev[3]
        if x not in r.nodes:
            return "reject"
        if r.cpds and x not in r.cpds:
            return "unspecified"  # CPDs exist but none for x: behaviour not specified, only atomicity is required
        t = r if inplace else r.clone()
        for p in list(t.parents(x)):
            t.edges.discard((p, x))
        if x in t.cpds:
            for p in list(t.cpds[x][0]):
                t.drop_parent(x, p)
        if not inplace:
            rw.append(t)
        return "accept"
    return "unspecified"


PREFIX3 = [["add_edges_from", 0, [["a", "b"], ["a", "c"]]], ["add_cpd", 0, "a", "cons"], ["add_cpd", 0, "b", "cons"], ["add_cpd", 0, "c", "cons"]]


def _expand_bn(universe, history, only=None, prefix=()):
    from pgmpy.models import BayesianNetwork

    st = Stats()
    history = list(prefix) + list(history)
    world = [BayesianNetwork()]
    rw = [RefNet()]
    ref_ok = True
    for ev in history:
        try:
            _bn_apply(world, ev)
            ok = True
        except Exception:
            ok = False
        if ref_ok:
            verdict = _ref_step_safe(rw, ev, ok)
            if verdict is None:
                ref_ok = False
    before_keys = None
    succ = []
    events = _bn_events(universe, len(world))
    for ev in events:
        if only is not None and ev != only:
            continue
        # rebuild by replay
        w = [BayesianNetwork()]
        for e in history:
            try:
                _bn_apply(w, e)
            except Exception:
                pass
        before = _bn_canon(w)
        nh = len(w)
        consistent_before = [_consistent_cpds(m) for m in w]
        case = {"system": "bn" + str(len(universe)), "history": history, "event": ev}
        st.evals += 1
        st.transitions += 1
        try:
            _bn_apply(w, ev)
            raised = None
        except Exception as ex:
            raised = ex
        after = _bn_canon(w)
        st.compared += 1
        if raised is not None or any(m.cpds for m in w) or len(w) > 1:
            st.nt(json.dumps(ev))
        # I1 acyclicity
        import networkx as nx

        for i, m in enumerate(w):
            if not nx.is_directed_acyclic_graph(m):
                st.violation("BayesianNetwork." + ev[0], "cycle", case, sorted(map(str, m.edges())), None)
        # I2 atomicity of rejected operations
        if raised is not None:
            st.bump("rejected")
            # *_from operations are sequences of single operations: a partial effect is allowed
            if after != before and ev[0] not in ("add_edges_from", "remove_nodes_from"):
                st.violation("BayesianNetwork." + ev[0], "rejected-op-changed-model", case,
                             {"error": repr(raised)[:160], "after": str(after)[:600]}, str(before)[:600])
                continue
        # I3 other handles unchanged
        tgt = ev[1]
        for i in range(nh):
            if i != tgt and after[0][i] != before[0][i]:
                st.violation("BayesianNetwork." + ev[0], "other-handle-changed", case, str(after[0][i])[:500], str(before[0][i])[:500])
        if raised is None and len(w) > nh:
            # a new handle (copy / do / random_cpds out of place): the source must be unchanged
            if after[0][tgt] != before[0][tgt]:
                st.violation("BayesianNetwork." + ev[0], "source-changed-by-out-of-place-op", case, str(after[0][tgt])[:500], str(before[0][tgt])[:500])
            if ev[0] == "copy" and after[0][nh] != before[0][tgt]:
                st.violation("BayesianNetwork.copy", "copy-differs", case, str(after[0][nh])[:500], str(before[0][tgt])[:500])
        # I4 after remove_node / do: every CPD that was consistent stays a valid CPD over exactly its graph parents
        if raised is None and ev[0] in ("remove_node", "do", "remove_nodes_from"):
            m = w[tgt] if (ev[0] != "do" or ev[3]) else w[-1]
            for c in m.cpds:
                if str(c.variable) in consistent_before[tgt] and c.variable in m.nodes():
                    pa = set(map(str, m.predecessors(c.variable)))
                    okc = set(map(str, c.variables[1:])) == pa
                    try:
                        okc = okc and c.is_valid_cpd()
                    except Exception:
                        okc = False
                    if not okc:
                        st.violation("BayesianNetwork." + ev[0], "cpd-inconsistent-after-op", case,
                                     {"cpd": list(map(str, c.variables)), "graph_parents": sorted(pa)}, None)
        # I5 lock-step reference model
        if ref_ok:
            rw2 = [r.clone() for r in rw]
            verdict = _ref_step(rw2, ev)
            if verdict == "accept" and raised is not None:
                st.violation("BayesianNetwork." + ev[0], "valid-op-rejected", case, repr(raised)[:200], "accept")
            elif verdict == "reject" and raised is None:
                st.violation("BayesianNetwork." + ev[0], "invalid-op-accepted", case, "accepted", "reject")
            elif verdict == "accept":
                for i, m in enumerate(w):
                    if i < len(rw2) and _impl_as_ref(m) != rw2[i].canon():
                        st.violation("BayesianNetwork." + ev[0], "state-differs-from-reference", case,
                                     str(_impl_as_ref(m))[:700], str(rw2[i].canon())[:700])
                        break
                _observe(st, w, rw2, case)
        key = json.dumps(after, default=str)
        succ.append((key, ev))
        st.outcome(hash(key) & 0xFFFFFF)
        if len(st.samples) < 1 and len(history) >= 2:
            st.sample({"history": history, "event": ev, "raised": repr(raised)[:80] if raised else None})
    return st, succ


def _ref_step_safe(rw, ev, impl_ok):
    """advance the reference along the history; None => reference lost sync (unspecified op accepted)"""
    probe = [r.clone() for r in rw]
    v = _ref_step(probe, ev)
    if v == "accept" and impl_ok:
        rw[:] = probe
        return v
    if v == "reject" and not impl_ok:
        return v
    if v == "unspecified" and not impl_ok:
        return v  # rejected => unchanged
    return None


def _consistent_cpds(m):
    out = set()
    for c in m.cpds:
        if c.variable in m.nodes() and set(c.variables[1:]) == set(m.predecessors(c.variable)):
            out.add(str(c.variable))
    return out


def _observe(st, w, rw, case):
    """check_model / query observations on complete models; they must not change the state"""
    from pgmpy.inference import VariableElimination

    for i, (m, r) in enumerate(zip(w, rw)):
        complete = r.nodes and all(v in r.cpds and set(r.cpds[v][0]) == r.parents(v) for v in r.nodes)
        before = _bn_canon_handle(m)
        st.evals += 1
        try:
            ok = m.check_model()
        except Exception as ex:
            ok = False
        st.compared += 1
        if bool(ok) != bool(complete) and r.nodes:
            st.violation("BayesianNetwork.check_model", "wrong-verdict", case, bool(ok), bool(complete))
        if complete and ok:
            # marginal of every variable from the reference tables
            order = sorted(r.nodes)
            joint = {}
            for k in itertools.product(*[range(2)] * len(order)):
                a = dict(zip(order, k))
                p = 1.0
                for v in order:
                    pa, t = r.cpds[v]
                    p *= t[tuple(a[x] for x in pa)][a[v]]
                joint[k] = p
            try:
                ve = VariableElimination(m)
                for j, v in enumerate(order):
                    got = ve.query([v], show_progress=False)
                    exp0 = sum(p for k, p in joint.items() if k[j] == 0)
                    st.evals += 1
                    st.compared += 1
                    if abs(float(got.values[got.name_to_no[v][v + "0"]]) - exp0) > 1e-9:
                        st.violation("BayesianNetwork.query", "wrong-marginal", case, float(got.values[0]), exp0)
            except Exception as ex:
                st.violation("BayesianNetwork.query", "exception", case, repr(ex)[:200])
        if _bn_canon_handle(m) != before:
            st.violation("BayesianNetwork.check_model", "observation-changed-model", case, None, None)


def expand_bn3(history, only=None):
    return _expand_bn(("a", "b", "c"), history, only)


def expand_bn2(history, only=None):
    return _expand_bn(("a", "b"), history, only)


def expand_bn3s(history, only=None):
    """same system, explored from a non-initial state: a->b, a->c with all CPDs attached"""
    return _expand_bn(("a", "b", "c"), history, only, prefix=PREFIX3)


# =============================================================== DynamicBayesianNetwork
def _dbn_events(nh):
    evs = []
    for h in range(nh):
        for x, y in itertools.product("XY", repeat=2):
            for s, t in ((0, 0), (0, 1), (1, 1), (1, 0), (0, 2), (2, 2), (1, 2)):  # later slices are normalised to 0/1
                evs.append(["add_edge", h, [x, s], [y, t]])
        for x in "XY":
            evs.append(["add_node", h, x])
            for k in (0, 1):
                evs.append(["add_cpd", h, x, k])
        evs.append(["init", h])
        if nh == 1:
            evs.append(["copy", h])
    return evs


def _dbn_apply(world, ev):
    from pgmpy.factors.discrete import TabularCPD

    op, h = ev[0], ev[1]
    m = world[h]
    if op == "add_edge":
        m.add_edge(tuple(ev[2]), tuple(ev[3]))
    elif op == "add_node":
        m.add_node(ev[2])
    elif op == "add_cpd":
        node = (ev[2], ev[3])
        pa = sorted(m.get_parents(node), key=str) if node in m.nodes() else []
        ncol = 2 ** len(pa)
        base = {"X": 1, "Y": 2}[ev[2]] + ev[3]
        top = [(base + 2 * j + 1) / 16.0 for j in range(ncol)]
        kw = {"evidence": [tuple(p) for p in pa], "evidence_card": [2] * len(pa)} if pa else {}
        m.add_cpds(TabularCPD(node, 2, [top, [1 - x for x in top]], **kw))
    elif op == "init":
        m.initialize_initial_state()
    elif op == "copy":
        world.append(m.copy())


def _dbn_canon(world):
    out = []
    for m in world:
        out.append((tuple(sorted(str(tuple(n)) for n in m.nodes())), tuple(sorted((str(tuple(a)), str(tuple(b))) for a, b in m.edges())),
                    tuple(sorted((str(c.variable), tuple(map(str, c.variables)), tuple(np.round(np.asarray(c.values, dtype=float).reshape(-1), 9).tolist())) for c in m.cpds))))
    alias = ()
    if len(world) > 1:
        a, b = world
        ida = {id(c) for c in a.cpds}
        alias = (a.cpds is b.cpds, any(id(c) in ida for c in b.cpds), a._adj is b._adj)
    return (tuple(out), alias)


def expand_dbn(history, only=None):
    import networkx as nx

    from pgmpy.models import DynamicBayesianNetwork as DBN

    st = Stats()

    def build():
        w = [DBN()]
        for e in history:
            try:
                _dbn_apply(w, e)
            except Exception:
                pass
        return w
    succ = []
    for ev in _dbn_events(len(build())):
        if only is not None and ev != only:
            continue
        w = build()
        before = _dbn_canon(w)
        nh = len(w)
        case = {"system": "dbn", "history": history, "event": ev}
        st.evals += 1
        st.transitions += 1
        try:
            _dbn_apply(w, ev)
            raised = None
        except Exception as ex:
            raised = ex
        after = _dbn_canon(w)
        st.compared += 1
        if raised is not None or len(w) > 1:
            st.nt(json.dumps(ev))
        for m in w:
            if not nx.is_directed_acyclic_graph(m):
                st.violation("DynamicBayesianNetwork." + ev[0], "cycle", case, sorted(map(str, m.edges())))
            # slice symmetry of intra-slice edges (the class invariant add_edge maintains)
            intra0 = {(a[0], b[0]) for a, b in m.edges() if a[1] == 0 and b[1] == 0}
            intra1 = {(a[0], b[0]) for a, b in m.edges() if a[1] == 1 and b[1] == 1}
            if intra0 != intra1:
                st.violation("DynamicBayesianNetwork." + ev[0], "slices-out-of-sync", case, sorted(intra0), sorted(intra1))
        if raised is not None:
            st.bump("rejected")
            if after != before:
                st.violation("DynamicBayesianNetwork." + ev[0], "rejected-op-changed-model", case,
                             {"error": repr(raised)[:160], "after": str(after)[:500]}, str(before)[:500])
                continue
        for i in range(nh):
            if i != ev[1] and after[0][i] != before[0][i]:
                st.violation("DynamicBayesianNetwork." + ev[0], "other-handle-changed", case, str(after[0][i])[:400], str(before[0][i])[:400])
        if raised is None and ev[0] == "copy" and (after[0][0] != before[0][0] or after[0][1] != before[0][0]):
            st.violation("DynamicBayesianNetwork.copy", "copy-differs", case, str(after[0][1])[:400], str(before[0][0])[:400])
        if raised is None and ev[0] == "add_edge":
            s, t = ev[2][1], ev[3][1]
            legal = ev[2][0] != ev[3][0] or s != t
            legal = legal and (t - s) in (0, 1)
            if not legal:
                st.violation("DynamicBayesianNetwork.add_edge", "invalid-op-accepted", case, "accepted", "reject")
        succ.append((json.dumps(after, default=str), ev))
    return st, succ


# =============================================================== JunctionTree
CLIQUES = [["a", "b"], ["b", "c"], ["a", "c"], ["a", "b", "c"], ["c", "d"]]


def _jt_events():
    evs = []
    for i in range(len(CLIQUES)):
        evs.append(["add_node", 0, i])
        for j in range(len(CLIQUES)):
            evs.append(["add_edge", 0, i, j])
    return evs


def expand_jt(history, only=None):
    import networkx as nx

    from pgmpy.models import JunctionTree

    st = Stats()

    def apply(m, ev):
        if ev[0] == "add_node":
            m.add_node(tuple(CLIQUES[ev[2]]))
        else:
            m.add_edge(tuple(CLIQUES[ev[2]]), tuple(CLIQUES[ev[3]]))

    def canon(m):
        return (tuple(sorted(map(str, m.nodes()))), tuple(sorted(str(sorted(map(str, e))) for e in m.edges())))

    def build():
        m = JunctionTree()
        for e in history:
            try:
                apply(m, e)
            except Exception:
                pass
        return m
    succ = []
    for ev in _jt_events():
        if only is not None and ev != only:
            continue
        m = build()
        before = canon(m)
        case = {"system": "jt", "history": history, "event": ev}
        st.evals += 1
        st.transitions += 1
        try:
            apply(m, ev)
            raised = None
        except Exception as ex:
            raised = ex
        after = canon(m)
        st.compared += 1
        if raised is not None:
            st.nt(json.dumps(ev))
            st.bump("rejected")
            if after != before:
                st.violation("JunctionTree." + ev[0], "rejected-op-changed-model", case, str(after)[:400], str(before)[:400])
                continue
        # no cycle, self loops included
        if any(a == b for a, b in m.edges()) or (m.number_of_nodes() and not nx.is_forest(nx.Graph(m))):
            st.violation("JunctionTree." + ev[0], "cycle", case, sorted(map(str, m.edges())))
        if raised is None and ev[0] == "add_edge":
            u, v = set(CLIQUES[ev[2]]), set(CLIQUES[ev[3]])
            if not (u & v):
                st.violation("JunctionTree.add_edge", "invalid-op-accepted", case, "edge between disjoint cliques", "reject")
        succ.append((json.dumps(after), ev))
    return st, succ


# =============================================================== MarkovNetwork
def _mn_events(nh):
    evs = []
    for h in range(nh):
        for x, y in (("a", "b"), ("b", "c"), ("a", "a"), ("b", "a")):
            evs.append(["add_edge", h, x, y])
        for x in "abc":
            evs.append(["add_node", h, x])
            evs.append(["remove_node", h, x])
        for scope in (["a", "b"], ["b", "c"], ["a"], ["a", "z"]):
            evs.append(["add_factor", h, scope])
            evs.append(["remove_factor", h, scope])
        if nh == 1:
            evs.append(["copy", h])
    return evs


def expand_mn(history, only=None):
    from pgmpy.factors.discrete import DiscreteFactor
    from pgmpy.models import MarkovNetwork

    st = Stats()

    def fac(scope):
        n = 2 ** len(scope)
        return DiscreteFactor(scope, [2] * len(scope), [1 + i + len(scope) for i in range(n)])

    def apply(w, ev):
        m = w[ev[1]]
        op = ev[0]
        if op == "add_edge":
            m.add_edge(ev[2], ev[3])
        elif op == "add_node":
            m.add_node(ev[2])
        elif op == "remove_node":
            m.remove_node(ev[2])
        elif op == "add_factor":
            m.add_factors(fac(ev[2]))
        elif op == "remove_factor":
            for f in list(m.factors):
                if list(f.variables) == ev[2]:
                    m.remove_factors(f)
                    return
            raise ValueError("no such factor")
        elif op == "copy":
            w.append(m.copy())

    def canon(w):
        out = []
        for m in w:
            out.append((tuple(sorted(map(str, m.nodes()))), tuple(sorted(str(sorted(map(str, e))) for e in m.edges())),
                        tuple(sorted((tuple(map(str, f.variables)), tuple(np.asarray(f.values, dtype=float).reshape(-1).tolist())) for f in m.factors))))
        alias = ()
        if len(w) > 1:
            ida = {id(f) for f in w[0].factors}
            alias = (w[0].factors is w[1].factors, any(id(f) in ida for f in w[1].factors),
                     any(np.shares_memory(x.values, y.values) for x in w[0].factors for y in w[1].factors))
        return (tuple(out), alias)

    def build():
        w = [MarkovNetwork()]
        for e in history:
            try:
                apply(w, e)
            except Exception:
                pass
        return w
    succ = []
    for ev in _mn_events(len(build())):
        if only is not None and ev != only:
            continue
        w = build()
        before = canon(w)
        nh = len(w)
        case = {"system": "mn", "history": history, "event": ev}
        st.evals += 1
        st.transitions += 1
        try:
            apply(w, ev)
            raised = None
        except Exception as ex:
            raised = ex
        after = canon(w)
        st.compared += 1
        if raised is not None or len(w) > 1:
            st.nt(json.dumps(ev))
        if raised is not None:
            st.bump("rejected")
            if after != before:
                st.violation("MarkovNetwork." + ev[0], "rejected-op-changed-model", case, str(after)[:400], str(before)[:400])
                continue
        for i in range(nh):
            if i != ev[1] and after[0][i] != before[0][i]:
                st.violation("MarkovNetwork." + ev[0], "other-handle-changed", case, str(after[0][i])[:400], str(before[0][i])[:400])
        if raised is None and ev[0] == "copy":
            if after[0][0] != before[0][0] or after[0][1] != before[0][0]:
                st.violation("MarkovNetwork.copy", "copy-differs", case, str(after[0][1])[:400], str(before[0][0])[:400])
            # mutate a factor of the copy in place: the source must not change
            if w[1].factors:
                w[1].factors[0].values += 7.0
                if canon(w)[0][0] != before[0][0]:
                    st.violation("MarkovNetwork.copy", "copy-shares-factor-values", case, None, None)
        if any(a == b for a, b in w[ev[1]].edges()):
            st.violation("MarkovNetwork." + ev[0], "self-loop", case, None, None)
        succ.append((json.dumps(after, default=str), ev))
    return st, succ


# =============================================================== DAG(ebunch)
def _dag_ctor(st, only=None):
    import networkx as nx

    from pgmpy.base import DAG
    from pgmpy.models import BayesianNetwork

    from mc.gen.dags import is_acyclic

    pairs = [(a, b) for a in range(3) for b in range(3)]
    lists = []
    for k in range(0, 4):
        lists.extend(itertools.permutations(pairs, k))
    for eb in lists:
        eb = [list(e) for e in eb]
        if only is not None and eb != only:
            continue
        cyclic = any(a == b for a, b in eb) or not is_acyclic(3, sorted(set(map(tuple, eb))))
        for cls in (DAG, BayesianNetwork):
            case = {"system": "dagctor", "ebunch": eb, "cls": cls.__name__}
            st.evals += 1
            st.transitions += 1
            try:
                g = cls([tuple(e) for e in eb])
                raised = None
            except Exception as ex:
                raised = ex
            st.compared += 1
            if cyclic:
                st.nt((cls.__name__, json.dumps(eb)))
            if cyclic and raised is None:
                st.violation(cls.__name__ + "(ebunch)", "cycle", case, eb, "reject")
            elif not cyclic and raised is not None:
                st.violation(cls.__name__ + "(ebunch)", "valid-op-rejected", case, repr(raised)[:200], "accept")
            elif raised is None and not nx.is_directed_acyclic_graph(g):
                st.violation(cls.__name__ + "(ebunch)", "cycle", case, eb, None)
    st.states += len(lists)
