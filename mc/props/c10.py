"""C10: structure scores equal their published definitions (E1) and the LRU score cache is transparent (E2)."""
import math
from collections import OrderedDict
from itertools import combinations_with_replacement, permutations, product

import numpy as np

from mc.gen.dags import all_dags
from mc.ref.graphs import G
from mc.stats import Stats

EXPLORER = "E1"
RULE = ("E1: columns X,P,Q with declared domains; data = every multiset of rows up to the row bound over the joint domain "
        "(sparse by construction) plus dense systematic sets; every (variable, ordered parent list); K2, BDeu(ess), BDs(ess), "
        "BIC, AIC local scores vs closed forms computed from exact counts with math.lgamma over ALL parent configurations "
        "and ALL declared states; score(model) == sum of local scores + structure prior for every DAG; structure_score wrapper; "
        "BDeu/BIC/AIC equal on Markov-equivalent DAGs; row and parent order invariance. E2: BFS over all call sequences of "
        "the LRU ScoreCache (4 keys, max_size 1..3) against an OrderedDict reference (values, size bound, LRU order, miss "
        "count). non-trivial = distinct (data, variable, parents) with >=1 unobserved parent configuration or an unseen "
        "declared state; distinct cache states")
BOUNDS = {"quick": "domains (3,2,2) and (2,3,2): all multisets of <=3 rows (454 each) + 12 dense sets; declared-unseen states on 60 sets; cache depth 5; four columns (2,3,2,2): 18 data sets x 7 scores x every child x three parents in 3 orders + 2 pairs",
          "thorough": "multisets of <=4 rows (1819 per domain), third domain (3,3,2); cache depth 7"}
EXHAUSTIVE = {"quick": True, "thorough": True}
ASSUMPTIONS = ["BDs as defined by Scutari (2016): hyper-parameters spread over the observed parent configurations",
               "math.lgamma, math.log are trusted"]

COLS = ["X", "P", "Q"]
DOMS = [(3, 2, 2), (2, 3, 2), (3, 3, 2)]


def groups(tier, seed):
    out = []
    doms = DOMS[:2] if tier == "quick" else DOMS
    kmax = 3 if tier == "quick" else 4
    for di, dom in enumerate(doms):
        rows = list(product(*[range(c) for c in dom]))
        sets = []
        for k in range(1, kmax + 1):
            sets.extend(combinations_with_replacement(range(len(rows)), k))
        for i in range(0, len(sets), 12):
            out.append({"part": "scores", "dom": list(dom), "sets": [list(s) for s in sets[i:i + 12]], "extra": False})
        # dense systematic data sets
        dense = []
        for a, b in product(range(1, 4), range(0, 4)):
            dense.append([(a * i + b * (i // 3)) % len(rows) for i in range(14 + a)])
        out.append({"part": "scores", "dom": list(dom), "sets": dense, "extra": False})
        # declared-but-unseen states
        step = max(1, len(sets) // 60)
        out.append({"part": "scores", "dom": list(dom), "sets": [list(s) for s in sets[(seed % step)::step][:60]], "extra": True})
    for ms in (1, 2, 3):
        out.append({"part": "cache", "max_size": ms, "depth": 5 if tier == "quick" else 7})
    # three parents (four columns of different cardinalities), every parent order
    for di in range(len(data4())):
        for extra in (False, True):
            out.append({"part": "scores4", "data": di, "extra": extra})
    return out


COLS4 = ["X", "P", "Q", "R"]
DOM4 = (2, 3, 2, 2)


def data4():
    rows = list(product(*[range(c) for c in DOM4]))
    out = []
    for a, b in product(range(1, 6), range(0, 3)):
        out.append([rows[(a * i + b * (i // 3) + (i * i) // 5) % len(rows)] for i in range(6 + 3 * a)])
    out += [[rows[0], rows[23]], [rows[5]], [rows[1], rows[1], rows[14]]]
    return out


def _scores4(st, g):
    import pandas as pd

    data = data4()[g["data"]]
    df = pd.DataFrame(data, columns=COLS4)
    ddom = DOM4
    state_names = None
    if g["extra"]:
        ddom = tuple(c + 1 for c in DOM4)
        state_names = {c: list(range(ddom[i])) for i, c in enumerate(COLS4)}
    else:
        obs = [sorted({r[i] for r in data}) for i in range(4)]
        remap = [{s: k for k, s in enumerate(o)} for o in obs]
        data = [tuple(remap[i][r[i]] for i in range(4)) for r in data]
        ddom = tuple(len(o) for o in obs)
    st.states += 1
    for name, ess in SCORES:
        base = {"g": g, "score": name, "ess": ess}
        try:
            sc = mk_scorer(name, df, ess, state_names)
        except Exception as ex:
            st.violation(name + ".__init__", "exception", dict(base, site=name + ".__init__"), repr(ex)[:200])
            continue
        for v in COLS4:
            others = [c for c in COLS4 if c != v]
            for pa in (others, others[::-1], others[1:] + others[:1], others[:2], others[1:]):
                exp = ref_local(name, data, v, pa, ddom, ess, COLS4)
                case = dict(base, site=name + ".local_score", var=v, parents=pa)
                N = counts(data, v, pa, ddom, COLS4)
                st.evals += 1
                st.transitions += 1
                st.nt((g["data"], g["extra"], v, tuple(pa)))
                try:
                    got = float(sc.local_score(v, pa))
                except Exception as ex:
                    st.violation(name + ".local_score", "exception", case, repr(ex)[:200])
                    continue
                st.compared += 1
                if not (abs(got - exp) <= 1e-8 * max(1.0, abs(exp))):
                    N_obs = sum(1 for n in N.values() if sum(n) > 0)
                    f12c = None
                    if name == "bds":
                        lg = math.lgamma
                        r_, q_, qo = ddom[COLS4.index(v)], len(N), N_obs
                        a_, b_ = ess / qo, ess / (q_ * r_)
                        obs_n = [n for n in N.values() if sum(n) > 0]
                        f12c = (sum(lg(x + b_) for n in obs_n for x in n) + (q_ - qo) * r_ * lg(b_)
                                - sum(lg(sum(n) + a_) for n in obs_n) - (q_ - qo) * lg(a_) + qo * lg(a_) - q_ * r_ * lg(b_))
                    st.violation(name + ".local_score", "wrong-score", case, got, exp,
                                 detail={"q": len(N), "q_obs": N_obs, "r": ddom[COLS4.index(v)], "diff": got - exp,
                                         "f12c_model_match": bool(f12c is not None and N_obs < len(N) and abs(got - f12c) <= 1e-8 * max(1.0, abs(f12c))),
                                         "unseen_child_states": sum(1 for k in range(ddom[COLS4.index(v)]) if all(n[k] == 0 for n in N.values()))})
                else:
                    st.outcome(round(exp, 6))


# ------------------------------------------------------------------ reference
def counts(data, var, parents, dom, COLS=COLS):
    """N[j][k] for every parent configuration j (declared) and state k (declared)"""
    vi = COLS.index(var)
    pis = [COLS.index(p) for p in parents]
    N = {}
    for j in product(*[range(dom[i]) for i in pis]):
        N[j] = [0] * dom[vi]
    for r in data:
        N[tuple(r[i] for i in pis)][r[vi]] += 1
    return N


def ref_local(name, data, var, parents, dom, ess=10.0, COLS=COLS):
    N = counts(data, var, parents, dom, COLS)
    r = dom[COLS.index(var)]
    q = len(N)
    lg = math.lgamma
    if name == "k2":
        return sum(lg(r) - lg(sum(n) + r) + sum(lg(x + 1) for x in n) for n in N.values())
    if name == "bdeu":
        a, b = ess / q, ess / (q * r)
        return sum(lg(a) - lg(sum(n) + a) + sum(lg(x + b) - lg(b) for x in n) for n in N.values())
    if name == "bds":
        obs = [n for n in N.values() if sum(n) > 0]
        qt = len(obs)
        a, b = ess / qt, ess / (qt * r)
        return sum(lg(a) - lg(sum(n) + a) + sum(lg(x + b) - lg(b) for x in n) for n in obs)
    ll = 0.0
    for n in N.values():
        t = sum(n)
        for x in n:
            if x > 0:
                ll += x * math.log(x / t)
    if name == "bic":
        return ll - 0.5 * math.log(len(data)) * q * (r - 1)
    if name == "aic":
        return ll - q * (r - 1)
    raise ValueError(name)


def ref_prior(name, edges, n=3):
    if name == "bds":
        return -(len(edges) + n * (n - 1) / 2.0) * math.log(2.0)
    return 0.0


def mk_scorer(name, df, ess, state_names):
    from pgmpy.estimators import AICScore, BDeuScore, BDsScore, BicScore, K2Score

    kw = {"state_names": state_names} if state_names else {}
    if name == "k2":
        return K2Score(df, **kw)
    if name == "bdeu":
        return BDeuScore(df, equivalent_sample_size=ess, **kw)
    if name == "bds":
        return BDsScore(df, equivalent_sample_size=ess, **kw)
    if name == "bic":
        return BicScore(df, **kw)
    return AICScore(df, **kw)


SCORES = [("k2", 10.0), ("bdeu", 10.0), ("bdeu", 1.0), ("bds", 10.0), ("bds", 1.0), ("bic", 0), ("aic", 0)]
_eq = {}


def eq_classes():
    if not _eq:
        d = {}
        for e in all_dags(3):
            g = G(3, e)
            d.setdefault((frozenset(g.skeleton()), frozenset(g.vstructs())), []).append(e)
        _eq["c"] = list(d.values())
    return _eq["c"]


def run_group(g, tier):
    st = Stats()
    if g["part"] == "cache":
        _cache(st, g)
        return st
    if g["part"] == "scores4":
        _scores4(st, g)
        return st
    for s in g["sets"]:
        _scores(st, g["dom"], s, g["extra"])
    return st


def replay(case):
    st = Stats()
    if case.get("part") == "cache":
        _cache(st, case["g"], only=case["history"])
    elif "g" in case and case["g"].get("part") == "scores4":
        _scores4(st, case["g"])
        st.violations = [v for v in st.violations if v["case"].get("var") == case.get("var") and v["case"].get("parents") == case.get("parents")
                         and v["site"] == case["site"] and v["case"].get("score") == case.get("score") and v["case"].get("ess") == case.get("ess")]
    else:
        _scores(st, case["dom"], case["set"], case["extra"], only=(case["score"], case["ess"]))
        st.violations = [v for v in st.violations if v["case"].get("var") == case.get("var") and v["case"].get("parents") == case.get("parents")
                         and v["site"] == case["site"]]
    return st.violations[:5]


def _scores(st, dom, idxs, extra, only=None):
    import pandas as pd

    from pgmpy.base import DAG

    rows = list(product(*[range(c) for c in dom]))
    data = [rows[i] for i in idxs]
    df = pd.DataFrame(data, columns=COLS)
    if len(df) and sum(map(sum, data)) % 3 == 1:
        # the frame's index is not content: descending, gapped labels on every third data set
        df.index = [3 * (len(df) - i) + 2 for i in range(len(df))]
    ddom = tuple(dom)
    state_names = None
    if extra:
        # declare one extra (never observed) state per variable
        ddom = tuple(c + 1 for c in dom)
        state_names = {c: list(range(ddom[i])) for i, c in enumerate(COLS)}
    else:
        # the estimator only knows observed states: restrict the declared domain to them, order-preserving
        obs = [sorted({r[i] for r in data}) for i in range(3)]
        remap = [{s: k for k, s in enumerate(o)} for o in obs]
        data = [tuple(remap[i][r[i]] for i in range(3)) for r in data]
        ddom = tuple(len(o) for o in obs)
    st.states += 1
    vp = []
    for vi, v in enumerate(COLS):
        others = [c for c in COLS if c != v]
        vp.append((v, []))
        for o in others:
            vp.append((v, [o]))
        vp.append((v, others))
        vp.append((v, others[::-1]))
    for name, ess in SCORES:
        if only is not None and (name, ess) != tuple(only):
            continue
        base = {"dom": list(dom), "set": list(idxs), "extra": extra, "score": name, "ess": ess}
        try:
            sc = mk_scorer(name, df, ess, state_names)
        except Exception as ex:
            st.violation(name + ".__init__", "exception", dict(base, site=name + ".__init__"), repr(ex)[:200])
            continue
        local = {}
        for v, pa in vp:
            exp = ref_local(name, data, v, pa, ddom, ess)
            case = dict(base, site=name + ".local_score", var=v, parents=pa)
            N = counts(data, v, pa, ddom)
            if any(sum(n) == 0 for n in N.values()) or extra:
                st.nt((tuple(idxs), extra, v, tuple(pa)))
            st.evals += 1
            st.transitions += 1
            try:
                got = float(sc.local_score(v, pa))
            except Exception as ex:
                st.violation(name + ".local_score", "exception", case, repr(ex)[:200])
                continue
            local[(v, tuple(pa))] = got
            st.compared += 1
            if not (abs(got - exp) <= 1e-8 * max(1.0, abs(exp))):
                N_obs = sum(1 for n in N.values() if sum(n) > 0)
                f12c = None
                if name == "bds":
                    # model of the recorded defect F12c: alpha = ess/q_obs but beta = ess/(q*r), plus BDeu's adjustment terms
                    lg = math.lgamma
                    r_, q_, qo = ddom[COLS.index(v)], len(N), N_obs
                    a_, b_ = ess / qo, ess / (q_ * r_)
                    obs_n = [n for n in N.values() if sum(n) > 0]
                    f12c = (sum(lg(x + b_) for n in obs_n for x in n) + (q_ - qo) * r_ * lg(b_)
                            - sum(lg(sum(n) + a_) for n in obs_n) - (q_ - qo) * lg(a_) + qo * lg(a_) - q_ * r_ * lg(b_))
                st.violation(name + ".local_score", "wrong-score", case, got, exp,
                             detail={"q": len(N), "q_obs": N_obs, "r": ddom[COLS.index(v)], "diff": got - exp,
                                     "f12c_model_match": bool(f12c is not None and N_obs < len(N) and abs(got - f12c) <= 1e-8 * max(1.0, abs(f12c))),
                                     "unseen_child_states": sum(1 for k in range(ddom[COLS.index(v)]) if all(n[k] == 0 for n in N.values()))})
            else:
                st.outcome(round(exp, 6))
        # parent-order invariance and row-order invariance
        for v in COLS:
            others = [c for c in COLS if c != v]
            a, b = local.get((v, tuple(others))), local.get((v, tuple(others[::-1])))
            st.compared += 1
            if a is not None and b is not None and abs(a - b) > 1e-9:
                st.violation(name + ".local_score", "parent-order-dependence", dict(base, site=name + ".local_score", var=v, parents=others), a, b)
        try:
            sc2 = mk_scorer(name, df.iloc[::-1].reset_index(drop=True), ess, state_names)
            v, pa = COLS[0], COLS[1:]
            st.evals += 1
            st.compared += 1
            if (v, tuple(pa)) in local and abs(float(sc2.local_score(v, pa)) - local[(v, tuple(pa))]) > 1e-9:
                st.violation(name + ".local_score", "row-order-dependence", dict(base, site=name + ".local_score", var=v, parents=pa), None, None)
        except Exception as ex:
            st.violation(name + ".local_score", "exception", dict(base, site=name + ".local_score", var="rows-reversed", parents=[]), repr(ex)[:200])
        # network scores: decomposition + prior on 4 DAG shapes; score equivalence from the (already checked) local terms
        net = {}

        def pa_of(e, vi):
            return tuple(COLS[a] for a, b in sorted(e) if b == vi)
        for e in all_dags(3):
            try:
                net[e] = ref_prior(name, e) + sum(local[(COLS[vi], pa_of(e, vi))] for vi in range(3))
            except KeyError:
                pass
        for e in [all_dags(3)[i] for i in (0, 7, 12, 24)]:
            dag = DAG()
            dag.add_nodes_from(COLS)
            dag.add_edges_from([(COLS[a], COLS[b]) for a, b in sorted(e)])
            case = dict(base, site=name + ".score", var="dag", parents=[list(x) for x in e])
            st.evals += 1
            st.transitions += 1
            try:
                got = float(sc.score(dag))
            except Exception as ex:
                st.violation(name + ".score", "exception", case, repr(ex)[:200])
                continue
            st.compared += 1
            if e in net and abs(got - net[e]) > 1e-8 * max(1.0, abs(net[e])):
                st.violation(name + ".score", "not-sum-of-local-plus-prior", case, got, net[e])
        if name in ("bdeu", "bic", "aic"):
            for cls in eq_classes():
                vals = [net[e] for e in cls if e in net]
                st.compared += 1
                if vals and max(vals) - min(vals) > 1e-8 * max(1.0, abs(vals[0])):
                    st.violation(name + ".score", "not-score-equivalent", dict(base, site=name + ".score", var="class", parents=[list(x) for x in cls[0]]),
                                 [round(x, 9) for x in vals], None)
        # cached scoring == uncached scoring (local and network level)
        try:
            from pgmpy.estimators.ScoreCache import ScoreCache

            cache = ScoreCache(sc, df)
            e = all_dags(3)[7]
            dag = DAG()
            dag.add_nodes_from(COLS)
            dag.add_edges_from([(COLS[a], COLS[b]) for a, b in e])
            st.evals += 2
            st.compared += 2
            if abs(float(cache.local_score("X", ["P", "Q"])) - local[("X", ("P", "Q"))]) > 1e-12:
                st.violation("ScoreCache.local_score", "differs-from-uncached", dict(base, site="ScoreCache.local_score", var="X", parents=["P", "Q"]), None, None)
            if e in net and abs(float(cache.score(dag)) - net[e]) > 1e-9:
                st.violation("ScoreCache.score", "differs-from-uncached", dict(base, site="ScoreCache.score", var="dag", parents=[list(x) for x in e]),
                             float(cache.score(dag)), net[e])
        except Exception as ex:
            st.violation("ScoreCache", "exception", dict(base, site="ScoreCache", var=None, parents=None), repr(ex)[:200])
        # metric wrapper
        if name in ("k2", "bic") or (name in ("bdeu", "bds") and ess == 10.0):
            try:
                from pgmpy.metrics import structure_score
                from pgmpy.models import BayesianNetwork

                e = all_dags(3)[9]
                bn = BayesianNetwork()
                bn.add_nodes_from(COLS)
                bn.add_edges_from([(COLS[a], COLS[b]) for a, b in e])
                kw = {"equivalent_sample_size": ess} if name in ("bdeu", "bds") else {}
                if state_names:
                    kw["state_names"] = state_names
                st.evals += 1
                got = float(structure_score(bn, df, scoring_method=name, **kw))
                st.compared += 1
                if e in net and abs(got - net[e]) > 1e-9:
                    st.violation("structure_score", "differs-from-score", dict(base, site="structure_score", var="dag", parents=[list(x) for x in e]), got, net[e])
            except Exception as ex:
                st.violation("structure_score", "exception", dict(base, site="structure_score", var=None, parents=None), repr(ex)[:200])
    if len(st.samples) < 1:
        st.sample({"dom": dom, "rows": data, "declared": list(ddom)})


# ------------------------------------------------------------------ E2: LRU cache
KEYS = [("X", ()), ("X", ("P",)), ("X", ("P", "Q")), ("X", ("Q", "P")), ("P", ("X",))]


def _cache(st, g, only=None):
    if only is not None and only and only[0] == "score":
        only = None  # network-score histories are re-run as a whole
    import pandas as pd

    from pgmpy.base import DAG
    from pgmpy.estimators import BDsScore
    from pgmpy.estimators.ScoreCache import ScoreCache

    rows = list(product(range(3), range(2), range(2)))
    df = pd.DataFrame([rows[i] for i in (0, 3, 5, 5, 7, 10, 11, 2)], columns=COLS)

    # the wrapped scorer has a graph-dependent structure prior (BDs), so network-level caching is observable too
    class Counting(BDsScore):
        calls = 0

        def local_score(self, v, p):
            Counting.calls += 1
            return super().local_score(v, p)
    base = Counting(df)
    plain = BDsScore(df)
    truth = {k: float(plain.local_score(k[0], list(k[1]))) for k in KEYS}
    ms = g["max_size"]
    dags = []
    for e in ([], [("P", "X")], [("P", "X"), ("Q", "X"), ("P", "Q")]):
        d_ = DAG()
        d_.add_nodes_from(COLS)
        d_.add_edges_from(e)
        dags.append((d_, float(plain.score(d_))))
    # network-score histories: every sequence of <=3 score(model) calls through ONE cache object
    for hist in [h for k in (1, 2, 3) for h in product(range(3), repeat=k)]:
        if only is not None:
            break
        c = ScoreCache(base, df, max_size=ms)
        for pos, di in enumerate(hist):
            got = float(c.score(dags[di][0]))
            st.evals += 1
            st.transitions += 1
            st.compared += 1
            if abs(got - dags[di][1]) > 1e-9:
                st.violation("ScoreCache.score", "differs-from-uncached", {"part": "cache", "g": g, "history": ["score"] + list(hist[:pos + 1])}, got, dags[di][1])
                break

    def run(hist):
        Counting.calls = 0
        c = ScoreCache(base, df, max_size=ms)
        ref = OrderedDict()
        misses = 0
        rets = []
        for ki in hist:
            k = KEYS[ki]
            rets.append(float(c.local_score(k[0], list(k[1]))))
            if k in ref:
                ref.move_to_end(k)
            else:
                misses += 1
                if len(ref) >= ms:
                    ref.popitem(last=False)
                ref[k] = truth[k]
        return c, ref, misses, rets

    def lru_order(c):
        out, link = [], c.cache.head[1]
        while link is not c.cache.tail and link is not None:
            out.append(link[2])
            link = link[1]
        return out
    seen = {()}
    frontier = [[]]
    for d in range(g["depth"]):
        nxt = []
        for hist in frontier:
            for ki in range(len(KEYS)):
                h = hist + [ki]
                if only is not None and h != only[:len(h)]:
                    continue
                c, ref, misses, rets = run(h)
                case = {"part": "cache", "g": g, "history": h}
                st.evals += 1
                st.transitions += 1
                st.compared += 1
                order = [(k[0], tuple(k[1])) for k in lru_order(c)]
                bad = None
                if abs(rets[-1] - truth[KEYS[ki]]) > 1e-12:
                    bad = "returned value differs from the uncached score"
                elif len(c.cache.mapping) > ms:
                    bad = "cache larger than max_size"
                elif order != list(ref.keys()):
                    bad = f"LRU order {order} != reference {list(ref.keys())}"
                elif Counting.calls != misses:
                    bad = f"{Counting.calls} base-scorer calls, reference misses {misses}"
                if bad:
                    st.violation("ScoreCache", "cache-inconsistent", case, bad, None)
                key = tuple(order)
                if key not in seen:
                    seen.add(key)
                    st.nt(key)
                    nxt.append(h)
        frontier = nxt
        if not frontier:
            break
    st.states += len(seen)
    st.bump(f"cache.max_size={ms}.states", len(seen))
    st.sample({"cache_keys": [str(k) for k in KEYS], "max_size": ms, "depth": g["depth"]})
