"""C03: MAP queries return a maximiser of the exact posterior (E1)."""
from fractions import Fraction as F
from itertools import permutations, product

from mc.build import Labeling, make_bn
from mc.gen.dags import all_dags, all_ugraphs, iso_classes, subsets
from mc.gen.tables import bn_from_desc, core_descs, family_descs
from mc.markov import LAYOUTS, joint_of, make_mn, ref_mn
from mc.questions import questions
from mc.ref.discrete import posterior
from mc.stats import Stats

EXPLORER = "E1"
RULE = ("E1: same model spaces as C01/C02; every non-empty query set x every disjoint evidence set/order/state with P(e)>0 x "
        "virtual evidence (0-1) x elimination_order {MinFill, MinNeighbors, MinWeight, WeightedMinFill, None, explicit "
        "permutations} for VariableElimination.map_query, BeliefPropagation.map_query (connected models), Markov networks "
        "(incl. duplicated equal factors) for the elimination engine, BayesianNetwork.predict on frames holding every admissible evidence row (plus a duplicate row) for every column subset (and, on 5-node classes with per-variable state names under rotating relabelings, with four missing variables). "
        "oracle: keys == requested variables, values are state names, reference posterior of the returned assignment >= "
        "max - 1e-9 (ties free). non-trivial = distinct (model, query, evidence) whose maximiser is unique and differs from "
        "the component-wise maximiser of the marginals or from the prior MAP")
BOUNDS = {"quick": "core: the isomorphism classes of DAGs n<=3 (relabelings are a separate axis), binary x 2-element alphabet; families with cards {(2,3,2),(3,2,2),(1,2,3)} + virtual evidence; "
                   "31 iso classes n=4; Markov: all connected graphs n<=4 x 4 layouts; labelings at deviation bound 1; predict with 4 missing variables on every 10th 5-node class x 3 name sets",
          "thorough": "3-element alphabet core; all 543 DAGs n=4; all styles x relabelings; predict with 4 missing variables on every 2nd 5-node class"}
EXHAUSTIVE = {"quick": True, "thorough": True}
ASSUMPTIONS = ["P(evidence)>0 decided by the reference", "ties between maximisers are free"]

ORD = ["MinFill", "MinNeighbors", "MinWeight", "WeightedMinFill", None]


def groups(tier, seed):
    out = []
    k = 2 if tier == "quick" else 3
    for n in (1, 2, 3):
        for d in core_descs(n, iso_classes(n) if tier == "quick" else all_dags(n), k):
            out.append({"kind": "bn", "bn": d, "lab": ["str", None, "def"], "virt": 0, "qmax": None, "emax": None})
    d3 = all_dags(3)
    cvs = [(2, 3, 2), (3, 2, 2), (1, 2, 3)]
    fams = ((1, 2, 1),) if tier == "quick" else ((0, 0, 0), (1, 1, 0), (1, 2, 1), (2, 1, 2))
    for d in family_descs(3, d3, cvs, fams=fams, fps=(0,)):
        out.append({"kind": "bn", "bn": d, "lab": ["str", None, "def"], "virt": 1, "qmax": None, "emax": None})
    perms = list(permutations(range(3)))
    labs = [("int", list(p), "def") for p in perms] + [("str", list(p), "def") for p in perms[1:]] + \
           [("str", None, s) for s in ("str", "rot", "shift", "tuple", "mixed")] + [("multi", None, "def")]
    for d in family_descs(3, iso_classes(3) if tier == "quick" else d3, [(2, 3, 2)], fams=((1, 2, 1),), fps=()):
        for lab in labs:
            out.append({"kind": "bn", "bn": d, "lab": list(lab), "virt": 1 if lab[0] in ("str", "multi") else 0, "qmax": None, "emax": None})
    d4 = iso_classes(4) if tier == "quick" else all_dags(4)
    for d in family_descs(4, d4, [(2, 2, 2, 2)], fams=((1, 2, 1),), fps=(0,)):
        out.append({"kind": "bn", "bn": d, "lab": ["str", None, "def"], "virt": 0, "qmax": 2, "emax": 2})
    for n in (2, 3, 4):
        for e in all_ugraphs(n):
            for lay in LAYOUTS:
                for cv in ([(2,) * n] if tier == "quick" else [(2,) * n, (2, 3, 2, 2)[:n]]):
                    out.append({"kind": "mn", "n": n, "edges": [list(x) for x in e], "card": list(cv), "layout": lay, "lab": ["str", None, "def"]})
    # predict with FOUR missing variables: 5-node classes, state names that differ per variable, name sets x rotating relabelings
    # (which column ends up under which name depends on container orders inside predict; relabelings vary them)
    c5 = iso_classes(5)
    step = 10 if tier == "quick" else 2
    p5 = list(permutations(range(5)))
    for i, e in enumerate(c5[seed % step::step]):
        for j, ns in enumerate(("str", "multi", "int")):
            perm = list(p5[(7 * i + 41 * j + 13 * seed) % len(p5)])
            for d in family_descs(5, [e], [(2, 3, 2, 2, 3)], fams=((1, 2, 1),), fps=()):
                out.append({"kind": "bn", "bn": d, "lab": [ns, perm, "str"], "virt": 0, "qmax": None, "emax": None, "predict_only": 1})
    return out


def _orders(n, q, e, full):
    rest = [v for v in range(n) if v not in q and v not in [x for x, _ in e]]
    exp = [list(p) for p in permutations(rest)] if rest else []
    if full or len(rest) >= 2:
        return ORD + exp[:6]
    return ["MinFill", None] + exp


def _decode(res, lab, q):
    """returned dict -> {id: state idx} or an error string"""
    want = {lab.name(v) for v in q}
    if set(res.keys()) != want:
        return f"keys {sorted(map(str, res.keys()))} != requested {sorted(map(str, want))}"
    out = {}
    for v in q:
        val = res[lab.name(v)]
        if val not in lab.sidx[v]:
            return f"value {val!r} of {lab.name(v)!r} is not one of its state names {lab.states[v]}"
        out[v] = lab.sidx[v][val]
    return out


def _judge(st, site, case, res, lab, q, post):
    st.compared += 1
    dec = _decode(res, lab, q)
    if isinstance(dec, str):
        st.violation(site, "malformed-answer", case, {str(k): str(v) for k, v in res.items()}, dec)
        return
    best = max(post.table.values())
    got = post.get(dec)
    if float(got) < float(best) - 1e-9:
        st.violation(site, "not-a-maximiser", case, {"assignment": {str(lab.name(v)): str(lab.state(v, s)) for v, s in dec.items()}, "posterior": float(got)},
                     {"max": float(best)})
    else:
        st.outcome(tuple(sorted(dec.items())))


def run_group(g, tier):
    st = Stats()
    if g["kind"] == "bn":
        _bn(st, g, tier)
    else:
        _mn(st, g, tier)
    return st


def _virt_arg(lab, ref, virt):
    from pgmpy.factors.discrete import TabularCPD

    return [TabularCPD(lab.name(v), ref.card[v], [[x] for x in lik], state_names={lab.name(v): list(lab.states[v])}) for v, lik in virt]


def _bn(st, g, tier, only=None):
    from pgmpy.inference import BeliefPropagation, VariableElimination

    ref = bn_from_desc(g["bn"])
    lab = Labeling(ref.n, ref.card, *g["lab"])
    joint = ref.joint()
    model = make_bn(ref, lab)
    st.states += 1
    connected = _moral_connected(ref)
    first = True
    if g.get("predict_only"):
        if only is None:
            _predict(st, g, ref, lab, joint, model, kmax=g["predict_only"])
        return
    for qu in questions(ref, joint, g["qmax"], g["emax"], True, g["virt"]):
        q, e, virt, post = qu["q"], qu["e"], qu["virt"], qu["post"]
        vals = sorted(post.table.values(), reverse=True)
        if len(vals) > 1 and vals[0] > vals[1] and (e or virt):
            st.nt((tuple(q), tuple(sorted(e)), str(virt)))
        ev = {lab.name(v): lab.state(v, s) for v, s in e}
        engines = [("VE.map_query", o) for o in _orders(ref.n, q, e, tier == "thorough" and not virt)]
        if connected:
            engines.append(("BP.map_query", None))
        for site, order in engines:
            case = {"g": g, "q": q, "e": [list(x) for x in e], "virt": [[v, list(l)] for v, l in virt], "site": site, "order": order}
            if only is not None and (case["q"], case["e"], case["virt"], site, order) != only:
                continue
            st.evals += 1
            st.transitions += 1
            try:
                kw = {"virtual_evidence": _virt_arg(lab, ref, virt)} if virt else {}
                if site.startswith("VE"):
                    eo = [lab.name(v) for v in order] if isinstance(order, list) else order
                    res = VariableElimination(model).map_query([lab.name(v) for v in q], evidence=ev or None,
                                                               elimination_order=eo, show_progress=False, **kw)
                else:
                    res = BeliefPropagation(model).map_query([lab.name(v) for v in q], evidence=ev or None, show_progress=False, **kw)
            except Exception as ex:
                st.violation(site, "exception", case, repr(ex)[:300])
                continue
            _judge(st, site, case, res, lab, q, post)
        if first:
            st.sample({"bn": g["bn"], "lab": g["lab"], "q": q, "e": e})
            first = False
    if only is None and (tier == "thorough" or g["virt"] or g["lab"] != ["str", None, "def"] or sum(map(sum, g["bn"]["cols"].get("idx", [[0]]))) % 4 == 0):
        _predict(st, g, ref, lab, joint, model)


def _moral_connected(ref):
    from mc.gen.dags import is_connected
    from mc.ref.graphs import G

    return is_connected(ref.n, [tuple(e) for e in G(ref.n, ref.edges()).moral_edges()])


def _predict(st, g, ref, lab, joint, model, only=None, kmax=None):
    import pandas as pd

    if g["lab"][2] in ("tuple",) or ref.n < 2:
        return
    if kmax is None:
        kmax = g.get("predict_only")
    for sub in subsets(range(ref.n), kmax):
        if not sub or len(sub) == ref.n:
            continue
        rows = [dict(zip(sub, s)) for s in product(*[range(ref.card[v]) for v in sub])]
        rows = [r for r in rows if joint.reduce(r).total() > 0]
        # one single-row frame, and one frame holding every admissible row plus a duplicate (row alignment)
        frames = ([[rows[-1]], rows + [rows[0]]] if rows else [])
        miss = [v for v in range(ref.n) if v not in sub]
        for fr in frames:
            case = {"g": g, "site": "predict", "cols": list(sub), "rows": [[r[v] for v in sub] for r in fr]}
            if only is not None and (case["cols"], case["rows"]) != only:
                continue
            df = pd.DataFrame([[lab.state(v, r[v]) for v in sub] for r in fr], columns=[lab.name(v) for v in sub])
            st.evals += 1
            st.transitions += 1
            try:
                out = model.predict(df, n_jobs=1)
            except Exception as ex:
                st.violation("predict", "exception", case, repr(ex)[:300])
                continue
            st.compared += 1
            if len(out) != len(fr) or set(out.columns) != {lab.name(v) for v in miss}:
                st.violation("predict", "malformed-answer", case, {"shape": list(out.shape), "columns": list(map(str, out.columns))}, None)
                continue
            for i, r in enumerate(fr):
                post, _ = posterior(joint, miss, r)
                res = {lab.name(v): out[lab.name(v)].iloc[i] for v in miss}
                res = {k: (x.item() if hasattr(x, "item") else x) for k, x in res.items()}
                _judge(st, "predict", dict(case, row=i), res, lab, miss, post)


def _mn(st, g, tier, only=None):
    from pgmpy.inference import VariableElimination

    n, edges = g["n"], [tuple(e) for e in g["edges"]]
    card, facs = ref_mn(n, edges, g["card"], g["layout"])
    lab = Labeling(n, card, *g["lab"])
    joint = joint_of(n, card, facs)
    model = make_mn(n, edges, facs, lab)
    st.states += 1
    for q in subsets(range(n), 2):
        if not q:
            continue
        rest = [v for v in range(n) if v not in q]
        for e in subsets(rest, 1):
            for states in product(*[range(card[v]) for v in e]):
                evd = dict(zip(e, states))
                post, pe = posterior(joint, list(q), evd)
                if post is None:
                    continue
                if g["layout"] == "dup":
                    st.nt((q, e, states))
                for order in ("MinFill", None):
                    case = {"g": g, "q": list(q), "e": [list(x) for x in evd.items()], "site": "MarkovNetwork-VE.map_query", "order": order}
                    if only is not None and (case["q"], case["e"], order) != only:
                        continue
                    st.evals += 1
                    st.transitions += 1
                    try:
                        res = VariableElimination(model).map_query([lab.name(v) for v in q], evidence=lab.ev(evd) or None,
                                                                   elimination_order=order, show_progress=False)
                    except Exception as ex:
                        st.violation("MarkovNetwork-VE.map_query", "exception", case, repr(ex)[:300])
                        continue
                    _judge(st, "MarkovNetwork-VE.map_query", case, res, lab, list(q), post)


def replay(case):
    st = Stats()
    g = case["g"]
    if case["site"] == "predict":
        ref = bn_from_desc(g["bn"])
        lab = Labeling(ref.n, ref.card, *g["lab"])
        _predict(st, g, ref, lab, ref.joint(), make_bn(ref, lab), only=(case["cols"], case["rows"]))
    elif g["kind"] == "bn":
        _bn(st, g, "quick", only=(case["q"], case["e"], case["virt"], case["site"], case["order"]))
    else:
        _mn(st, g, "quick", only=(case["q"], case["e"], case["order"]))
    return st.violations[:5]
