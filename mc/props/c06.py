"""C06: parameter learning returns the closed-form estimates (E1)."""
import math
from fractions import Fraction as F
from itertools import combinations_with_replacement, permutations, product

import numpy as np

from mc.gen.dags import all_dags
from mc.stats import Stats

EXPLORER = "E1"
RULE = ("E1: columns A,B,C with domains (2,3,2)/(3,2,2); data = every multiset of <=k rows over the joint domain; DAG family "
        "covering every (node, parent set); estimators MLE, Bayesian K2 / BDeu(ess 1, 5, per-node dict) / Dirichlet (integer and fractional scalar, "
        "arrays with pairwise distinct entries), model.fit, DAG.fit, fit_update with previous CPDs whose parents are listed in "
        "every order and n_prev in {1,10,None}; declared-but-unseen states, categorical (ordered/unordered) and int columns, "
        "weighted rows; invariance under row / column / edge-insertion permutation; fitted network passes check_model. "
        "oracle: Fraction counts aligned by NAMED parent configuration. EM: one latent variable, every multiset of <=2 (+ some 3-4 row) "
        "data sets, seeds {0,1}, max_iter 1..4: observed-data log-likelihood (brute force over the latent) non-decreasing; "
        "no latent => equals MLE. non-trivial = distinct (data, node, parents) with an unseen parent configuration, an "
        "unseen declared state, or >=2 parents")
BOUNDS = {"quick": "multisets of <=3 rows on domain (2,3,2) (454) and <=2 rows on (3,2,2) (90), 5 covering DAGs, 6 estimator configs; model.fit on all 25 DAGs x 6 variants for ~20 data sets per domain; EM 20 data sets x 8 structures (3 with two latent variables) x {2 seeds, explicit init_cpds} x max_iter 1..4 (latent cardinality 3 on every 4th)",
          "thorough": "multisets of <=4 rows; model.fit on all 25 DAGs for all data sets; EM latent cardinality 3"}
EXHAUSTIVE = {"quick": True, "thorough": True}
ASSUMPTIONS = ["plain str columns are not used (rejected by preprocess_data in the pinned pandas); int and categorical columns are",
               "estimators list parents in sorted order (documented); comparison is by named assignment"]

COLS = ["A", "B", "C"]
DOMS = [(2, 3, 2), (3, 2, 2)]
# DAGs (edge lists over column indices) that together realise every (node, parent-set) combination
COVER = [[], [(1, 0), (2, 0), (1, 2)], [(0, 1), (2, 1), (0, 2)], [(0, 2), (1, 2), (1, 0)], [(2, 0), (0, 1)], [(2, 1), (1, 0)]]


def groups(tier, seed):
    out = []
    kmax = 3 if tier == "quick" else 4
    for di_, dom in enumerate(DOMS):
        nrows = int(np.prod(dom))
        sets = []
        for k in range(1, (kmax if (di_ == 0 or tier == "thorough") else kmax - 1) + 1):
            sets.extend(combinations_with_replacement(range(nrows), k))
        for i in range(0, len(sets), 10):
            out.append({"part": "est", "dom": list(dom), "sets": [list(s) for s in sets[i:i + 10]]})
        step = max(1, len(sets) // 20) if tier == "quick" else 1
        pick = sets[(seed % step)::step]
        for i in range(0, len(pick), 5):
            out.append({"part": "fit", "dom": list(dom), "sets": [list(s) for s in pick[i:i + 5]]})
        out.append({"part": "update", "dom": list(dom), "sets": [list(s) for s in sets[5::max(1, len(sets) // 25)][:25]]})
    em_sets = [list(s) for k in (1, 2) for s in combinations_with_replacement(range(4), k)] + [[0, 1, 2], [0, 0, 3], [0, 3, 3, 1], [1, 2, 2, 2], [0, 1, 2, 3], [3, 3, 0, 0]]
    for di in range(len(U4_DATA)):
        for ab in (0, 1):
            out.append({"part": "update4", "data": di, "ab": ab})
    for i, s in enumerate(em_sets):
        out.append({"part": "em", "set": s, "lcard": 2})
        if tier == "thorough" or i % 4 == seed % 4:
            out.append({"part": "em", "set": s, "lcard": 3})
    return out


def run_group(g, tier):
    st = Stats()
    if g["part"] == "em":
        _em(st, g)
    elif g["part"] == "update4":
        _update4(st, g)
    else:
        for s in g["sets"]:
            {"est": _est, "fit": _fit, "update": _update}[g["part"]](st, g["dom"], s)
    return st


def replay(case):
    st = Stats()
    if case["part"] == "em":
        _em(st, case["g"])
    elif case["part"] == "update4":
        _update4(st, case["g"])
    else:
        {"est": _est, "fit": _fit, "update": _update}[case["part"]](st, case["dom"], case["set"])
    keys = ("site", "node", "dag", "config", "variant", "order", "nprev")
    return [v for v in st.violations if all(v["case"].get(k) == case.get(k) for k in keys)][:5]


# ------------------------------------------------------------------ reference
def ref_cpd(data, weights, v, pa, dom, pseudo=None):
    """{parent config (tuple in pa order): [P(v=k)]}; pseudo: same shape dict of lists or None; uniform for empty columns"""
    out = {}
    for j in product(*[range(dom[p]) for p in pa]):
        n = [F(0)] * dom[v]
        for r, w in zip(data, weights):
            if all(r[p] == s for p, s in zip(pa, j)):
                n[r[v]] += w
        if pseudo is not None:
            n = [a + b for a, b in zip(n, pseudo[j])]
        t = sum(n)
        out[j] = [x / t for x in n] if t > 0 else [F(1, dom[v])] * dom[v]
    return out


def cpd_named(cpd):
    """pgmpy CPD -> (child, {frozenset((parent, state)): {child state: p}})"""
    vals = np.asarray(cpd.values, dtype=float)
    vs = list(cpd.variables)
    out = {}
    for idx in np.ndindex(*vals.shape):
        key = frozenset((vs[i], cpd.state_names[vs[i]][idx[i]]) for i in range(1, len(vs)))
        out.setdefault(key, {})[cpd.state_names[vs[0]][idx[0]]] = float(vals[idx])
    return vs[0], out


def cmp_cpd(cpd, ref, v, pa, states, tol=1e-9):
    """states[i] = list of state names of column i (reference state index -> name)"""
    try:
        child, tab = cpd_named(cpd)
    except Exception as ex:
        return "unreadable CPD: " + repr(ex)[:100]
    if child != COLS[v] or set(cpd.variables[1:]) != {COLS[p] for p in pa}:
        return f"scope {cpd.variables} != {COLS[v]} | {[COLS[p] for p in pa]}"
    if list(cpd.state_names[COLS[v]]) != list(states[v]):
        return f"child states {cpd.state_names[COLS[v]]} != declared {states[v]}"
    for j, col in ref.items():
        key = frozenset((COLS[p], states[p][s]) for p, s in zip(pa, j))
        if key not in tab:
            return f"missing parent configuration {sorted(map(str, key))}"
        for k, pexp in enumerate(col):
            got = tab[key].get(states[v][k])
            if got is None or abs(got - float(pexp)) > tol:
                return f"P({COLS[v]}={states[v][k]} | {sorted(map(str, key))}) = {got} != {float(pexp)}"
    return None


def mk_df(data, dom, variant="int"):
    import pandas as pd

    df = pd.DataFrame(data, columns=COLS)
    if len(df) and sum(map(sum, data)) % 3 == 1:
        # the frame's index is not content: descending, gapped labels on every third data set
        df.index = [3 * (len(df) - i) + 2 for i in range(len(df))]
    states = [list(range(c)) for c in dom]
    if variant.startswith("cat"):
        states = [[f"{COLS[i].lower()}{k}" for k in range(dom[i])] for i in range(3)]
        for i, c in enumerate(COLS):
            df[c] = pd.Categorical([states[i][x] for x in df[c]], categories=states[i], ordered=(variant == "cat-ordered"))
    return df, states


def mk_model(edges, order=None):
    from pgmpy.models import BayesianNetwork

    m = BayesianNetwork()
    m.add_nodes_from(COLS)
    for a, b in (order if order is not None else edges):
        m.add_edge(COLS[a], COLS[b])
    return m


def pseudo_array(v, pa, dom):
    """distinct entries, listed for SORTED parents (the documented layout)"""
    q = int(np.prod([dom[p] for p in pa])) if pa else 1
    arr = np.array([[1 + (3 * k + 5 * j) % 7 + 0.5 * k for j in range(q)] for k in range(dom[v])], dtype=float)
    d = {}
    for jx, j in enumerate(product(*[range(dom[p]) for p in pa])):
        d[j] = [F(arr[k][jx]) for k in range(dom[v])]
    return arr, d


CONFIGS = ["mle", "k2", "bdeu1", "bdeu5dict", "dir2", "dirhalf", "dirarr"]


def _estimate(config, model, df, v, pa, dom, state_names=None, weighted=False):
    from pgmpy.estimators import BayesianEstimator, MaximumLikelihoodEstimator

    kw = {"state_names": state_names} if state_names else {}
    node = COLS[v]
    if config == "mle":
        return MaximumLikelihoodEstimator(model, df, **kw).estimate_cpd(node, weighted=weighted), None
    be = BayesianEstimator(model, df, **kw)
    r, q = dom[v], int(np.prod([dom[p] for p in pa])) if pa else 1
    conf = list(product(*[range(dom[p]) for p in pa]))
    if config == "k2":
        return be.estimate_cpd(node, prior_type="K2", weighted=weighted), {j: [F(1)] * r for j in conf}
    if config == "bdeu1":
        return be.estimate_cpd(node, prior_type="BDeu", equivalent_sample_size=1, weighted=weighted), {j: [F(1, r * q)] * r for j in conf}
    if config == "bdeu5dict":
        cpds = be.get_parameters(prior_type="BDeu", equivalent_sample_size={"A": 5, "B": 2, "C": 7}, n_jobs=1, weighted=weighted)
        ess = {"A": 5, "B": 2, "C": 7}[node]
        return [c for c in cpds if c.variable == node][0], {j: [F(ess, r * q)] * r for j in conf}
    if config == "dirhalf":  # fractional scalar pseudo-count
        return be.estimate_cpd(node, prior_type="dirichlet", pseudo_counts=0.5, weighted=weighted), {j: [F(1, 2)] * r for j in conf}
    if config == "dir2":
        return be.estimate_cpd(node, prior_type="dirichlet", pseudo_counts=2, weighted=weighted), {j: [F(2)] * r for j in conf}
    arr, d = pseudo_array(v, pa, dom)
    return be.estimate_cpd(node, prior_type="dirichlet", pseudo_counts=arr, weighted=weighted), d


def _est(st, dom, idxs):
    rows = list(product(*[range(c) for c in dom]))
    data = [rows[i] for i in idxs]
    st.states += 1
    variants = [("int", None)]
    h = sum(idxs) + len(idxs)
    if h % 3 == 0:
        variants.append(("cat", None))
    if h % 3 == 1:
        variants.append(("cat-ordered", None))
    if h % 3 == 2:
        variants.append(("int-declared", None))
    if h % 2 == 0:
        variants.append(("int-declared-perm", None))
    if h % 4 == 0:
        variants.append(("weighted", None))
    for variant, _ in variants:
        ddom = tuple(dom)
        df, states = mk_df(data, dom, "int" if variant in ("int", "int-declared", "int-declared-perm", "weighted") else variant)
        weights = [F(1)] * len(data)
        sn = None
        weighted = False
        if variant == "int":
            # without state_names the estimator only knows the observed states (in sorted order)
            obs = [sorted({r[i] for r in data}) for i in range(3)]
            states = obs
            ddom = tuple(len(o) for o in obs)
            remap = [{s: k for k, s in enumerate(o)} for o in obs]
            rdata = [tuple(remap[i][r[i]] for i in range(3)) for r in data]
        elif variant == "int-declared":
            sn = {c: list(range(dom[i] + (1 if i == 0 else 0))) for i, c in enumerate(COLS)}
            ddom = tuple(len(sn[c]) for c in COLS)
            states = [sn[c] for c in COLS]
            rdata = data
        elif variant == "int-declared-perm":
            # declared state lists that are NOT in sorted order: reference state index k <-> declared[k]
            perm = {i: ([1, 0] if dom[i] == 2 else [2, 0, 1]) for i in range(3)}
            sn = {c: list(perm[i]) for i, c in enumerate(COLS)}
            states = [sn[c] for c in COLS]
            inv = [{s: k for k, s in enumerate(states[i])} for i in range(3)]
            rdata = [tuple(inv[i][r[i]] for i in range(3)) for r in data]
        elif variant == "weighted":
            ws = [F(1), F(2), F(1, 2)]
            weights = [ws[i % 3] for i in range(len(data))]
            df["_weight"] = [float(w) for w in weights]
            weighted = True
            obs = [sorted({r[i] for r in data}) for i in range(3)]
            states = obs
            ddom = tuple(len(o) for o in obs)
            remap = [{s: k for k, s in enumerate(o)} for o in obs]
            rdata = [tuple(remap[i][r[i]] for i in range(3)) for r in data]
        else:
            # categorical columns: as documented, without `state_names` only the OBSERVED values are states (sorted)
            obs = [sorted({r[i] for r in data}) for i in range(3)]
            ddom = tuple(len(o) for o in obs)
            remap = [{s: k for k, s in enumerate(o)} for o in obs]
            rdata = [tuple(remap[i][r[i]] for i in range(3)) for r in data]
            states = [[states[i][s] for s in obs[i]] for i in range(3)]
            if variant == "cat":
                # ... and declared through state_names on every other data set
                pass
        for di, edges in enumerate(COVER):
            model = mk_model(edges)
            for v in range(3):
                pa = sorted(a for a, b in edges if b == v)
                if di > 0 and not pa:
                    continue
                for config in CONFIGS:
                    case = {"part": "est", "dom": list(dom), "set": list(idxs), "site": "estimate_cpd", "node": v, "dag": di, "config": config, "variant": variant}
                    st.evals += 1
                    st.transitions += 1
                    try:
                        cpd, pseudo = _estimate(config, model, df, v, pa, ddom, sn, weighted)
                    except Exception as ex:
                        st.violation("estimate_cpd", "exception", case, repr(ex)[:300])
                        continue
                    ref = ref_cpd(rdata, weights, v, pa, ddom, pseudo)
                    if len(pa) >= 2 or variant != "int" or any(sum(1 for r in rdata if all(r[p] == s for p, s in zip(pa, j))) == 0 for j in ref):
                        st.nt((tuple(idxs), v, tuple(pa), config, variant))
                    st.compared += 1
                    d = cmp_cpd(cpd, ref, v, pa, states)
                    if d:
                        st.violation("estimate_cpd", "wrong-cpd", case, None, d)
                    else:
                        st.outcome(hash(tuple(map(tuple, ref.values()))) & 0xFFFFF)
    if len(st.samples) < 1:
        st.sample({"dom": dom, "rows": data, "configs": CONFIGS})


def _fit(st, dom, idxs):
    """model.fit / DAG.fit on every DAG: all CPDs right, check_model passes, invariant to row/column/edge order"""
    from pgmpy.base import DAG
    from pgmpy.estimators import BayesianEstimator, MaximumLikelihoodEstimator

    rows = list(product(*[range(c) for c in dom]))
    data = [rows[i] for i in idxs]
    df, states = mk_df(data, dom, "cat")
    sn = {c: states[i] for i, c in enumerate(COLS)}
    st.states += 1
    for ei, edges in enumerate(all_dags(3)):
        for variant in ("fit", "fit-bayes", "dagfit", "rows-reversed", "cols-permuted", "edges-reversed", "fit-weighted", "fit-bayes-weighted", "fit-dir-weighted"):
            case = {"part": "fit", "dom": list(dom), "set": list(idxs), "site": "model.fit", "dag": ei, "variant": variant}
            d2 = df
            order = list(edges)
            if variant == "rows-reversed":
                d2 = df.iloc[::-1].reset_index(drop=True)
            elif variant == "cols-permuted":
                d2 = df[["C", "A", "B"]]
            elif variant == "edges-reversed":
                order = list(edges)[::-1]
            st.evals += 1
            st.transitions += 1
            pseudo_fn = None
            weights = [F(1)] * len(data)
            try:
                if variant.endswith("-weighted"):
                    # weighted rows through the model-level entry points (get_parameters forwards `weighted`)
                    ws = [F(2), F(1, 2), F(1), F(3)]
                    weights = [ws[i % 4] for i in range(len(data))]
                    d2 = df.copy()
                    d2["_weight"] = [float(w) for w in weights]
                    model = mk_model(edges, order)
                    if variant == "fit-weighted":
                        model.fit(d2, state_names=sn, weighted=True)
                    elif variant == "fit-bayes-weighted":
                        model.fit(d2, estimator=BayesianEstimator, prior_type="K2", state_names=sn, weighted=True)
                        pseudo_fn = lambda v, pa: {j: [F(1)] * dom[v] for j in product(*[range(dom[p]) for p in pa])}
                    else:
                        model.fit(d2, estimator=BayesianEstimator, prior_type="dirichlet", pseudo_counts=0.5, state_names=sn, weighted=True)
                        pseudo_fn = lambda v, pa: {j: [F(1, 2)] * dom[v] for j in product(*[range(dom[p]) for p in pa])}
                elif variant == "dagfit":
                    dag = DAG()
                    dag.add_nodes_from(COLS)
                    dag.add_edges_from([(COLS[a], COLS[b]) for a, b in edges])
                    model = dag.fit(d2, state_names=sn)
                elif variant == "fit-bayes":
                    model = mk_model(edges, order)
                    model.fit(d2, estimator=BayesianEstimator, prior_type="K2", state_names=sn)
                    pseudo_fn = lambda v, pa: {j: [F(1)] * dom[v] for j in product(*[range(dom[p]) for p in pa])}
                else:
                    model = mk_model(edges, order)
                    model.fit(d2, state_names=sn)
                ok = model.check_model()
            except Exception as ex:
                st.violation("model.fit", "exception", case, repr(ex)[:300])
                continue
            st.compared += 1
            if not ok:
                st.violation("model.fit", "fitted-model-invalid", case, None, None)
            for v in range(3):
                pa = sorted(a for a, b in edges if b == v)
                ref = ref_cpd(data, weights, v, pa, dom, pseudo_fn(v, pa) if pseudo_fn else None)
                try:
                    d = cmp_cpd(model.get_cpds(COLS[v]), ref, v, pa, states)
                except Exception as ex:
                    d = "no CPD / node missing in the fitted network: " + repr(ex)[:120]
                st.compared += 1
                if d:
                    st.violation("model.fit", "wrong-cpd", dict(case, node=v), None, d)
                    break
        st.nt((tuple(idxs), ei))


def _update(st, dom, idxs):
    """fit_update == Dirichlet fit with previous CPD x n_prev pseudo-counts aligned by NAMED parent configuration"""
    from pgmpy.factors.discrete import TabularCPD

    rows = list(product(*[range(c) for c in dom]))
    data = [rows[i] for i in idxs]
    df, states = mk_df(data, dom, "cat")
    st.states += 1
    for di, edges in enumerate(COVER[1:4]):
        # previous CPDs: fingerprint tables; parents listed in every order
        pa_of = {v: sorted(a for a, b in edges if b == v) for v in range(3)}
        prev = {}
        for v in range(3):
            tab = {}
            for jx, j in enumerate(product(*[range(dom[p]) for p in pa_of[v]])):
                w = [F(2 + (3 * k + 7 * jx + 5 * v) % 11) for k in range(dom[v])]
                tab[j] = [x / sum(w) for x in w]
            prev[v] = tab
        two = [v for v in range(3) if len(pa_of[v]) == 2][0]
        for po in permutations(pa_of[two]):
            for nprev in (1, 10, None):
                case = {"part": "update", "dom": list(dom), "set": list(idxs), "site": "fit_update", "dag": di + 1, "order": list(po), "nprev": nprev}
                model = mk_model(edges)
                for v in range(3):
                    pa = list(po) if v == two else pa_of[v]
                    cols = []
                    for j in product(*[range(dom[p]) for p in pa]):
                        a = dict(zip(pa, j))
                        cols.append([float(x) for x in prev[v][tuple(a[p] for p in pa_of[v])]])
                    vals = np.array(cols).T.reshape(dom[v], -1)
                    kw = dict(evidence=[COLS[p] for p in pa], evidence_card=[dom[p] for p in pa]) if pa else {}
                    model.add_cpds(TabularCPD(COLS[v], dom[v], vals, state_names={COLS[x]: states[x] for x in [v] + pa}, **kw))
                st.evals += 1
                st.transitions += 1
                st.nt((tuple(idxs), di, po, nprev))
                try:
                    model.fit_update(df, n_prev_samples=nprev)
                    ok = model.check_model()
                except Exception as ex:
                    st.violation("fit_update", "exception", case, repr(ex)[:300])
                    continue
                n = F(nprev) if nprev is not None else F(len(data))
                for v in range(3):
                    pseudo = {j: [x * n for x in col] for j, col in prev[v].items()}
                    ref = ref_cpd(data, [F(1)] * len(data), v, pa_of[v], dom, pseudo)
                    st.compared += 1
                    d = cmp_cpd(model.get_cpds(COLS[v]), ref, v, pa_of[v], states)
                    if d:
                        st.violation("fit_update", "wrong-cpd", dict(case, node=v), None, d)
                        break


# ------------------------------------------------------------------ fit_update with three parents
U4_NAMES = ["A", "B", "C", "D"]
U4_DOM = (2, 3, 2, 2)
U4_DATA = [
    [(0, 0, 0, 0), (1, 2, 1, 1), (0, 1, 0, 1)],
    [(1, 0, 1, 0), (1, 0, 1, 1), (0, 2, 0, 0), (0, 2, 1, 1), (1, 1, 0, 0)],
    [(a, b, c, (a + b + c) % 2) for a in range(2) for b in range(3) for c in range(2)],
    [(0, 1, 1, 1)] * 2 + [(1, 1, 0, 0), (1, 2, 1, 0)],
]


def _update4(st, g):
    """a node with THREE parents of different cardinalities whose previous CPD lists them in every order (rotations are not self-inverse)"""
    import pandas as pd

    from pgmpy.factors.discrete import TabularCPD
    from pgmpy.models import BayesianNetwork

    data = U4_DATA[g["data"]]
    dom = U4_DOM
    df = pd.DataFrame(data, columns=U4_NAMES)
    pa_of = {0: [], 1: [0] if g["ab"] else [], 2: [], 3: [0, 1, 2]}
    edges = [(U4_NAMES[p], U4_NAMES[v]) for v in range(4) for p in pa_of[v]]
    prev = {}
    for v in range(4):
        tab = {}
        for jx, j in enumerate(product(*[range(dom[p]) for p in pa_of[v]])):
            w = [F(1 + (5 * k + 3 * jx + 7 * v) % 13) for k in range(dom[v])]
            tab[j] = [x / sum(w) for x in w]
        prev[v] = tab
    st.states += 1
    for po in permutations(pa_of[3]):
        for nprev in (3, None):
            case = {"part": "update4", "g": g, "site": "fit_update(3 parents)", "order": list(po), "nprev": nprev}
            model = BayesianNetwork()
            model.add_nodes_from(U4_NAMES)
            model.add_edges_from(edges)
            for v in range(4):
                pa = list(po) if v == 3 else pa_of[v]
                cols = []
                for j in product(*[range(dom[p]) for p in pa]):
                    a = dict(zip(pa, j))
                    cols.append([float(x) for x in prev[v][tuple(a[p] for p in pa_of[v])]])
                vals = np.array(cols).T.reshape(dom[v], -1)
                kw = dict(evidence=[U4_NAMES[p] for p in pa], evidence_card=[dom[p] for p in pa]) if pa else {}
                model.add_cpds(TabularCPD(U4_NAMES[v], dom[v], vals, state_names={U4_NAMES[x]: list(range(dom[x])) for x in [v] + pa}, **kw))
            st.evals += 1
            st.transitions += 1
            st.nt((g["data"], g["ab"], po, nprev))
            try:
                model.fit_update(df, n_prev_samples=nprev)
                model.check_model()
            except Exception as ex:
                st.violation("fit_update(3 parents)", "exception", case, repr(ex)[:300])
                continue
            n = F(nprev) if nprev is not None else F(len(data))
            bad = None
            for v in range(4):
                cpd = model.get_cpds(U4_NAMES[v])
                for j in product(*[range(dom[p]) for p in pa_of[v]]):
                    rows_j = [r for r in data if all(r[p] == x for p, x in zip(pa_of[v], j))]
                    for k in range(dom[v]):
                        exp = (sum(1 for r in rows_j if r[v] == k) + n * prev[v][j][k]) / (len(rows_j) + n)
                        got = cpd.get_value(**{U4_NAMES[v]: k, **{U4_NAMES[p]: x for p, x in zip(pa_of[v], j)}})
                        st.compared += 1
                        if abs(float(got) - float(exp)) > 1e-9:
                            bad = f"P({U4_NAMES[v]}={k} | {dict(zip([U4_NAMES[p] for p in pa_of[v]], j))}) = {float(got):.6f}, closed form {float(exp):.6f}"
                            break
                    if bad:
                        break
                if bad:
                    break
            if bad:
                st.violation("fit_update(3 parents)", "wrong-cpd", case, None, bad)
            else:
                st.outcome(("u4", g["data"], nprev))


# ------------------------------------------------------------------ EM
EM_STRUCT = {"L-root": [("L", "A"), ("L", "B")], "L-mid": [("A", "L"), ("L", "B")], "L-root+AB": [("L", "A"), ("L", "B"), ("A", "B")],
             "L-leaf": [("A", "L"), ("B", "L"), ("A", "B")], "L-mid+AB": [("A", "L"), ("L", "B"), ("A", "B")],
             # two latent variables: sharing a child, and one the parent of the other
             "LM-share": [("L", "A"), ("M", "A"), ("M", "B")], "LM-chain": [("L", "M"), ("M", "A"), ("L", "B")], "LM-share2": [("L", "A"), ("M", "A"), ("L", "B"), ("M", "B")]}


def _em_init(model, lcard):
    """explicit, deterministic, strictly positive initial CPDs for the latent variable and its children"""
    from pgmpy.factors.discrete import TabularCPD

    out = {}
    card = {"A": 2, "B": 2, "L": lcard, "M": 2}
    lats = sorted(model.latents)
    for v in lats + sorted({c for l in lats for c in model.successors(l)} - set(lats)):
        pa = sorted(model.predecessors(v))
        ncol = int(np.prod([card[p] for p in pa])) if pa else 1
        raw = np.array([[1 + ((3 * i + 2 * j + len(v) + (v == "B")) % 5) for j in range(ncol)] for i in range(card[v])], dtype=float)
        vals = raw / raw.sum(axis=0, keepdims=True)
        out[v] = TabularCPD(v, card[v], vals, evidence=pa or None, evidence_card=[card[p] for p in pa] or None,
                            state_names={x: list(range(card[x])) for x in [v] + pa})
    return out



def _em(st, g):
    import pandas as pd

    from pgmpy.estimators import ExpectationMaximization, MaximumLikelihoodEstimator
    from pgmpy.models import BayesianNetwork

    rows = list(product(range(2), range(2)))
    data = [rows[i] for i in g["set"]]
    df = pd.DataFrame(data, columns=["A", "B"])
    lcard = g["lcard"]
    st.states += 1
    for sname, edges in EM_STRUCT.items():
        for seed in (0, 1, "init"):
            lls = []
            for k in (1, 2, 3, 4):
                case = {"part": "em", "g": g, "site": "EM", "config": sname, "order": seed, "nprev": k}
                lats = {"L", "M"} if sname.startswith("LM") else {"L"}
                lcards = {"L": lcard, "M": 2} if len(lats) == 2 else {"L": lcard}
                model = BayesianNetwork(edges, latents=lats)
                st.evals += 1
                st.transitions += 1
                try:
                    kw = {"seed": seed} if seed != "init" else {"init_cpds": _em_init(model, lcard)}
                    cpds = ExpectationMaximization(model, df).get_parameters(latent_card=dict(lcards), max_iter=k, n_jobs=1, show_progress=False, **kw)
                except Exception as ex:
                    st.violation("EM", "exception", case, repr(ex)[:300])
                    lls = None
                    break
                # observed-data log-likelihood: brute-force sum over the latent
                by = {c.variable: c for c in cpds}
                bad = None
                for c in cpds:
                    if not c.is_valid_cpd():
                        bad = f"CPD of {c.variable} is not normalised"

                def loglik(cs):
                    ll = 0.0
                    lnames = sorted(lcards)
                    for a, b in data:
                        tot = 0.0
                        for ls in product(*[range(lcards[x]) for x in lnames]):
                            asg = {"A": a, "B": b, **dict(zip(lnames, ls))}
                            p = 1.0
                            for c in cs:
                                idx = tuple(c.name_to_no[v][asg[v]] for v in c.variables)
                                p *= float(np.asarray(c.values)[idx])
                            tot += p
                        ll += math.log(tot) if tot > 0 else -1e9
                    return ll
                st.compared += 1
                if bad or set(by) != {"A", "B"} | lats:
                    st.violation("EM", "invalid-parameters", case, bad or sorted(by), None)
                    lls = None
                    break
                if k == 1 and seed == "init":
                    # the chain starts at the given initial CPDs (the CPDs that do not touch the latent are fixed by the data)
                    init = kw["init_cpds"]
                    lls.append(loglik(list(init.values()) + [c for c in cpds if c.variable not in init]))
                lls.append(loglik(cpds))
            if lls:
                st.nt((tuple(g["set"]), sname, seed))
                for i in range(1, len(lls)):
                    st.compared += 1
                    if lls[i] < lls[i - 1] - 1e-7:
                        st.violation("EM", "likelihood-decreased", {"part": "em", "g": g, "site": "EM", "config": sname, "order": seed, "nprev": i},
                                     lls, None)
                        break
                st.outcome(round(lls[-1], 6))
    # no latent => EM equals MLE
    model = BayesianNetwork([("A", "B")])
    case = {"part": "em", "g": g, "site": "EM(no latent)", "config": "A->B", "order": 0, "nprev": 2}
    st.evals += 1
    try:
        cpds = ExpectationMaximization(model, df).get_parameters(max_iter=2, seed=0, n_jobs=1, show_progress=False)
        mle = MaximumLikelihoodEstimator(model, df).get_parameters(n_jobs=1)
        st.compared += 1
        for c in mle:
            e = [x for x in cpds if x.variable == c.variable][0]
            if cpd_named(c) != cpd_named(e):
                st.violation("EM(no latent)", "differs-from-mle", case, str(cpd_named(e))[:300], str(cpd_named(c))[:300])
    except Exception as ex:
        st.violation("EM(no latent)", "exception", case, repr(ex)[:300])
    if len(st.samples) < 1:
        st.sample({"em_data": data, "structures": list(EM_STRUCT)})
