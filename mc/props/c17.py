"""C17: dynamic-network inference equals inference on the unrolled network (E1)."""
from fractions import Fraction as F
from itertools import product

import numpy as np

from mc.gen.dags import subsets
from mc.gen.tables import ALPH
from mc.ref.discrete import RefBN, posterior
from mc.stats import Stats

EXPLORER = "E1"
RULE = ("E1: every two-slice template over {X,Y} (every intra-slice DAG x every non-empty set of inter-slice edges = 45) plus a "
        "three-variable family, binary (+ a ternary family), columns from a dyadic alphabet; horizon T<=2; every single query "
        "variable in every slice x every evidence set of size<=k over (variable, slice) including interface nodes and several "
        "slices; forward_inference, backward_inference, query vs brute-force marginals of the unrolled network built by the "
        "reference; get_constant_bn exposes the template CPDs unchanged; initialize_initial_state copies CPDs (cardinalities "
        "2-4). non-trivial = distinct (template, query, evidence) with evidence on an interface node or in another slice than "
        "the query")
BOUNDS = {"quick": "45 templates over {X,Y} x 2 column families, T<=2, |evidence|<=1; 20 three-variable templates (incl. the documented Z->X->Y, Z0->Z1); initial-state completion on 30 templates x cards {2,3,4}",
          "thorough": "|evidence|<=2, T<=3"}
EXHAUSTIVE = {"quick": True, "thorough": True}
ASSUMPTIONS = ["P(evidence)>0 decided by the reference", "default integer state names (the DBN classes do not carry state names)"]

VARS2 = ["X", "Y"]


def templates(nv):
    """(intra edges (a,b) by var index, inter edges (a,b): (a,0)->(b,1))"""
    names = list(range(nv))
    intra_opts = [[]] + [[(a, b)] for a in names for b in names if a != b]
    if nv == 3:
        # [(2, 0), (0, 1)] with inter [(2, 2)] is the template of the class documentation (Z->X->Y, Z0->Z1)
        intra_opts = [[], [(0, 1)], [(0, 1), (1, 2)], [(0, 2), (1, 2)], [(2, 0), (0, 1)]]
    inter_all = [(a, b) for a in names for b in names]
    out = []
    for intra in intra_opts:
        if nv == 2:
            inters = [list(s) for s in subsets(inter_all) if s]
        else:
            inters = [[(0, 0)], [(0, 0), (1, 1), (2, 2)], [(0, 1), (2, 2)], [(2, 2)]]
        for inter in inters:
            out.append((intra, inter))
    return out


def groups(tier, seed):
    out = []
    for ti in range(len(templates(2))):
        for fam in ((1, 2, 1), (2, 1, 3)):
            out.append({"part": "infer", "nv": 2, "t": ti, "fam": list(fam), "card": 2, "emax": 1 if tier == "quick" else 2, "T": 2 if tier == "quick" else 3})
    for ti in range(len(templates(3))):
        doc = templates(3)[ti] == ([(2, 0), (0, 1)], [(2, 2)])
        # the documented template (where the engine is mostly right) is explored deeper: pairs of evidence, zero entries
        out.append({"part": "infer", "nv": 3, "t": ti, "fam": [1, 2, 1], "card": 2, "emax": 2 if doc else 1, "T": 2})
        if doc:
            out.append({"part": "infer", "nv": 3, "t": ti, "fam": [2, 1, 3], "card": 2, "emax": 2, "T": 2, "zeros": True})
            out.append({"part": "infer", "nv": 3, "t": ti, "fam": [1, 1, 0], "card": 3, "emax": 1, "T": 2, "zeros": True})
    for ti in range(0, len(templates(2)), 3):
        out.append({"part": "infer", "nv": 2, "t": ti, "fam": [1, 1, 0], "card": 3, "emax": 1, "T": 2})
    for ti in range(0, len(templates(2)), 3):
        for card in (2, 3, 4):
            out.append({"part": "init", "nv": 2, "t": ti, "card": card})
    # a node with two same-slice parents of different cardinalities: every source slice, edge insertion order and CPD parent order
    for src in (0, 1):
        for eo in (0, 1):
            for po in (0, 1):
                for cards in ([2, 3, 2], [3, 2, 3]):
                    out.append({"part": "init2", "src": src, "edge_order": eo, "cpd_order": po, "cards": cards})
    return out


def col(card, v, j, fam, slice_, zeros=False):
    a, b, k = fam
    al = ALPH[card]
    c = al[(a * v + b * j + k + 3 * slice_) % len(al)]
    if zeros:
        return list(c)  # keeps exact zeros / deterministic columns (P(evidence)>0 is decided by the reference)
    # keep strictly positive for conditioning: mix with uniform
    return [(x + F(1, 8)) / (1 + F(card, 8)) for x in c]


def build(g):
    """returns (ref unrolled RefBN builder, pgmpy DBN, meta)"""
    from pgmpy.factors.discrete import TabularCPD
    from pgmpy.models import DynamicBayesianNetwork as DBN

    nv, card, fam = g["nv"], g["card"], g["fam"]
    intra, inter = templates(nv)[g["t"]]
    names = ["X", "Y", "Z"][:nv]
    pa0 = {v: [("s", a) for a, b in intra if b == v] for v in range(nv)}          # same-slice parents
    pa1 = {v: pa0[v] + [("p", a) for a, b in inter if b == v] for v in range(nv)}  # + previous-slice parents
    cpt0, cpt1 = {}, {}
    for v in range(nv):
        cpt0[v] = {k: col(card, v, j, fam, 0, g.get("zeros", False)) for j, k in enumerate(product(*[range(card)] * len(pa0[v])))}
        cpt1[v] = {k: col(card, v, j, fam, 1, g.get("zeros", False)) for j, k in enumerate(product(*[range(card)] * len(pa1[v])))}
    dbn = DBN()
    dbn.add_nodes_from(names)
    for a, b in intra:
        dbn.add_edge((names[a], 0), (names[b], 0))
    for a, b in inter:
        dbn.add_edge((names[a], 0), (names[b], 1))
    cpds = []
    present = {tuple(x) for x in dbn.nodes()}
    if any((names[v], 1) not in present for v in range(nv)):
        return None  # a variable without a slice-1 node: the template does not define its transition model
    for v in range(nv):
        for sl, pa, cpt in ((0, pa0[v], cpt0[v]), (1, pa1[v], cpt1[v])):
            ev = [(names[a], sl if kind == "s" else sl - 1) for kind, a in pa]
            vals = np.array([[float(x) for x in cpt[k]] for k in product(*[range(card)] * len(pa))]).T.reshape(card, -1)
            kw = dict(evidence=ev, evidence_card=[card] * len(ev)) if ev else {}
            cpds.append(TabularCPD((names[v], sl), card, vals, **kw))
    dbn.add_cpds(*cpds)

    def unrolled(T):
        n = nv * (T + 1)
        parents, cardd, cpt = {}, {}, {}
        for t in range(T + 1):
            for v in range(nv):
                i = t * nv + v
                cardd[i] = card
                if t == 0:
                    parents[i] = [a for kind, a in pa0[v]]
                    cpt[i] = cpt0[v]
                else:
                    parents[i] = [(t * nv + a) if kind == "s" else ((t - 1) * nv + a) for kind, a in pa1[v]]
                    cpt[i] = cpt1[v]
        return RefBN(n, parents, cardd, cpt)
    return unrolled, dbn, names, (intra, inter)


def run_group(g, tier):
    st = Stats()
    if g["part"] == "infer":
        _infer(st, g)
    elif g["part"] == "init2":
        _init2(st, g)
    else:
        _init(st, g)
    return st


def replay(case):
    st = Stats()
    g = case["g"]
    if g["part"] == "infer":
        _infer(st, g, only=(case["site"], case["q"], case["e"]))
    elif g["part"] == "init2":
        _init2(st, g)
    else:
        _init(st, g)
    return st.violations[:5]


def _infer(st, g, only=None):
    from pgmpy.inference import DBNInference

    built = build(g)
    if built is None:
        st.bump("template-skipped:variable-without-slice-1-node")
        return
    unrolled, dbn, names, (intra, inter) = built
    nv, T = g["nv"], g["T"]
    ref = unrolled(T)
    joint = ref.joint()
    st.states += 1
    interface0 = {a for a, b in inter}
    base = {"g": g, "template": {"intra": intra, "inter": inter}}
    try:
        dbn.check_model()
        inf = DBNInference(dbn)
    except Exception as ex:
        st.evals += 1
        st.violation("DBNInference", "exception", dict(base, site="DBNInference", q=None, e=None), repr(ex)[:300])
        return
    # constant BN exposes the template CPDs unchanged
    if only is None:
        st.evals += 1
        try:
            bn = dbn.get_constant_bn()
            st.compared += 1
            for c in dbn.get_cpds():
                nm = f"{c.variable[0]}_{c.variable[1]}"
                c2 = bn.get_cpds(nm)
                if c2 is None or np.abs(np.asarray(c2.get_values()) - np.asarray(c.get_values())).max() > 1e-12 or \
                        [f"{a}_{b}" for a, b in c.variables[1:]] != list(c2.variables[1:]):
                    st.violation("get_constant_bn", "cpd-changed", dict(base, site="get_constant_bn", q=None, e=None), nm, None)
            if {f"{a[0]}_{a[1]}->{b[0]}_{b[1]}" for a, b in dbn.edges()} != {f"{a}->{b}" for a, b in bn.edges()}:
                st.violation("get_constant_bn", "edges-changed", dict(base, site="get_constant_bn", q=None, e=None), sorted(map(str, bn.edges())), None)
        except Exception as ex:
            st.violation("get_constant_bn", "exception", dict(base, site="get_constant_bn", q=None, e=None), repr(ex)[:300])
    allnodes = [(v, t) for t in range(T + 1) for v in range(nv)]
    for (qv, qt) in allnodes:
        for e in subsets([x for x in allnodes if x != (qv, qt)], g["emax"]):
            for states in product(*[range(g["card"])] * len(e)):
                evd = {t * nv + v: s for (v, t), s in zip(e, states)}
                post, pe = posterior(joint, [qt * nv + qv], evd)
                if post is None:
                    continue
                ev_arg = {(names[v], t): s for (v, t), s in zip(e, states)}
                if any((v in interface0 and t == 0) or t != qt for (v, t) in e):
                    st.nt(((qv, qt), e, states))
                for site in ("query", "forward_inference", "backward_inference"):
                    qd, ed = [qv, qt], [[v, t, s] for (v, t), s in zip(e, states)]
                    if only is not None and only != (site, qd, ed):
                        continue
                    if site == "backward_inference" and not e:
                        continue
                    case = dict(base, site=site, q=qd, e=ed)
                    post_s = post
                    if site == "forward_inference":
                        # filtering: only evidence up to the query slice is used (documented forward pass)
                        evf = {t * nv + v: s for (v, t), s in zip(e, states) if t <= qt}
                        post_s, _ = posterior(joint, [qt * nv + qv], evf)
                    st.evals += 1
                    st.transitions += 1
                    try:
                        fn = getattr(DBNInference(dbn), site)
                        res = fn([(names[qv], qt)], ev_arg if ev_arg else None)
                        phi = res[(names[qv], qt)]
                        vals = np.asarray(phi.values, dtype=float).reshape(-1)
                    except Exception as ex:
                        st.violation(site, "exception", case, repr(ex)[:300], None,
                                     detail={"intra_edges": len(intra), "evidence_on_slice0_interface": any(v in interface0 and t == 0 for (v, t) in e)})
                        continue
                    st.compared += 1
                    exp = [float(post_s.table[(s,)]) for s in range(g["card"])]
                    tot = vals.sum()
                    got = (vals / tot).tolist() if tot > 0 else vals.tolist()
                    if len(got) != len(exp) or max(abs(a - b) for a, b in zip(got, exp)) > 1e-9:
                        st.violation(site, "wrong-marginal", case, got, exp,
                                     detail={"intra_edges": len(intra), "evidence_on_slice0_interface": any(v in interface0 and t == 0 for (v, t) in e),
                                             "evidence_slices": sorted({t for (v, t) in e}), "query_slice": qt})
                    else:
                        st.outcome(tuple(round(x, 9) for x in exp))
    if len(st.samples) < 1:
        st.sample({"template": {"intra": intra, "inter": inter}, "T": T})


def _init2(st, g):
    """A -> X <- B inside one slice (cards differ): the CPD completed for the other slice must be the same FUNCTION of the
    named parent states, whatever order the edges were inserted in and whatever order the given CPD lists its parents in"""
    from pgmpy.factors.discrete import TabularCPD
    from pgmpy.models import DynamicBayesianNetwork as DBN

    ca, cb, cx = g["cards"]
    s = g["src"]
    dbn = DBN()
    es = [(("A", 0), ("X", 0)), (("B", 0), ("X", 0))]
    dbn.add_edges_from(es[::-1] if g["edge_order"] else es)
    pa = [(("B", s), cb), (("A", s), ca)] if g["cpd_order"] else [(("A", s), ca), (("B", s), cb)]
    ncol = ca * cb
    raw = np.array([[1 + ((3 * i + 5 * j + i * j) % 7) for j in range(ncol)] for i in range(cx)], dtype=float)
    vals = raw / raw.sum(axis=0, keepdims=True)
    cX = TabularCPD(("X", s), cx, vals, evidence=[p for p, _ in pa], evidence_card=[c for _, c in pa])
    cA = TabularCPD(("A", s), ca, [[1.0 / ca]] * ca)
    cB = TabularCPD(("B", s), cb, [[(i + 1) / (cb * (cb + 1) / 2)] for i in range(cb)])
    dbn.add_cpds(cA, cB, cX)
    case = {"g": g, "site": "initialize_initial_state", "template": "A->X<-B", "q": None, "e": None}
    st.states += 1
    st.evals += 1
    st.transitions += 1
    st.nt(str(g))
    try:
        dbn.initialize_initial_state()
        c1 = [c for c in dbn.get_cpds() if tuple(c.variable) == ("X", 1 - s)]
        if len(c1) != 1:
            st.violation("initialize_initial_state", "copied-cpd-differs", case, f"{len(c1)} CPDs for (X,{1 - s})", None)
            return
        f0, f1 = cX.to_factor(), c1[0].to_factor()
        st.compared += 1
        if {v[0] for v in f1.variables} != {"A", "B", "X"} or any(v[1] != 1 - s for v in f1.variables):
            st.violation("initialize_initial_state", "copied-cpd-differs", case, [tuple(v) for v in f1.variables], "scope {A,B,X} in the other slice")
            return
        bad = None
        for a in range(ca):
            for b in range(cb):
                for x in range(cx):
                    asg = {"A": a, "B": b, "X": x}
                    try:
                        v1 = float(np.asarray(f1.values)[tuple(asg[v[0]] for v in f1.variables)])
                    except IndexError:
                        bad = f"copied CPD has cardinalities {[int(c) for c in f1.cardinality]} for {[tuple(v) for v in f1.variables]}"
                        break
                    v0 = float(np.asarray(f0.values)[tuple(asg[v[0]] for v in f0.variables)])
                    if abs(v0 - v1) > 1e-12:
                        bad = f"P(X={x} | A={a}, B={b}) = {v1} in the copy, {v0} in the given CPD"
                        break
                if bad:
                    break
            if bad:
                break
        if bad:
            st.violation("initialize_initial_state", "copied-cpd-differs", case, None, bad)
        else:
            st.outcome(("init2", g["cpd_order"], g["edge_order"]))
    except Exception as ex:
        st.violation("initialize_initial_state", "exception", case, repr(ex)[:300], None)


def _init(st, g):
    """initialize_initial_state completes the other slice by copying tables unchanged"""
    from pgmpy.factors.discrete import TabularCPD
    from pgmpy.models import DynamicBayesianNetwork as DBN

    nv, card = g["nv"], g["card"]
    intra, inter = templates(nv)[g["t"]]
    names = ["X", "Y"]
    st.states += 1
    dbn = DBN()
    dbn.add_nodes_from(names)
    for a, b in intra:
        dbn.add_edge((names[a], 0), (names[b], 0))
    for a, b in inter:
        dbn.add_edge((names[a], 0), (names[b], 1))
    given = {}
    if any((names[v], 1) not in {tuple(x) for x in dbn.nodes()} for v in range(nv)):
        st.bump("template-skipped:variable-without-slice-1-node")
        return
    for v in range(nv):
        pa0 = [(names[a], 0) for a, b in intra if b == v]
        pa1 = [(names[a], 1) for a, b in intra if b == v] + [(names[a], 0) for a, b in inter if b == v]
        # give only the slice-0 CPD when the slice-1 parent set corresponds (no inter-slice parent), else both
        for sl, pa in ((0, pa0), (1, pa1)):
            if sl == 1 and not any(b == v for a, b in inter):
                continue
            vals = np.array([[float(x) for x in col(card, v, j, (1, 2, 1), sl)] for j in range(card ** len(pa))]).T.reshape(card, -1)
            kw = dict(evidence=pa, evidence_card=[card] * len(pa)) if pa else {}
            c = TabularCPD((names[v], sl), card, vals, **kw)
            given[(v, sl)] = vals
            dbn.add_cpds(c)
    case = {"g": g, "site": "initialize_initial_state", "template": {"intra": intra, "inter": inter}, "q": None, "e": None}
    st.evals += 1
    st.transitions += 1
    st.nt((g["t"], card))
    try:
        dbn.initialize_initial_state()
    except Exception as ex:
        st.violation("initialize_initial_state", "exception", case, repr(ex)[:300], None, detail={"card": card})
        return
    st.compared += 1
    for v in range(nv):
        for sl in (0, 1):
            c = dbn.get_cpds((names[v], sl))
            if (v, sl) in given:
                if c is None or np.abs(np.asarray(c.get_values()) - given[(v, sl)]).max() > 1e-12:
                    st.violation("initialize_initial_state", "given-cpd-altered", case, None, [v, sl])
            elif (v, 0) in given and not any(b == v for a, b in inter):
                # the slice-1 copy must carry the slice-0 table unchanged
                if c is None or np.asarray(c.get_values()).shape != given[(v, 0)].shape or np.abs(np.asarray(c.get_values()) - given[(v, 0)]).max() > 1e-12:
                    st.violation("initialize_initial_state", "copied-cpd-differs", case, None if c is None else np.asarray(c.get_values()).tolist(), given[(v, 0)].tolist())
