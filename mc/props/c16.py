"""C16: queries are pure, repeatable and representation-independent (E2 + E1)."""
import copy
import io
import json
import os
import subprocess
import sys
from itertools import permutations, product

import numpy as np

from mc.build import Labeling, cmp_named, make_bn, make_cpd, named_table, ref_named
from mc.gen.dags import all_dags, iso_classes
from mc.gen.tables import bn_from_desc, family_descs
from mc.ref.discrete import posterior
from mc.stats import Stats

EXPLORER = "E2"
RULE = ("(b) E2: every history of <=3 questions from an 11-letter alphabet (13 for belief propagation: + calibrate, max_calibrate) (plain posterior, with evidence, the same node sets with query/evidence roles swapped, joint=False, "
        "virtual evidence on two different variables, MAP over a subset, MAP over all variables, explicit elimination "
        "order) on ONE shared VariableElimination / BeliefPropagation / CausalInference / BayesianModelSampling engine: "
        "every answer must equal a fresh engine's (and the reference joint), the model must be untouched. (a) E1 purity: "
        "deep snapshot of model / data / start graph AND of every mutable call argument (evidence / do dicts, variable lists, State lists, virtual-evidence CPDs, frames) before and after every inference, scoring, estimation, search, "
        "writer, conversion, sampler call. (c) E1 representation: the C01/C03/C04 cases re-run in sub-processes under "
        "PYTHONHASHSEED in {1,2,3}, under the torch back end (float64; float32 with tolerance 1e-5), and under every "
        "node/edge/CPD insertion order. non-trivial = distinct histories containing a virtual-evidence question followed "
        "by another question, plus distinct (api, model) purity cases")
BOUNDS = {"quick": "(b) depth 3 (11+121+1331 histories on VE, 13+169+2197 on BP, 584 on the others) x 3 models; (a) 40 API calls x 4 models + 32 argument-purity calls x 3 models x 2 styles; (c) hash seeds {1,2,3} x 12 C01 groups + torch on 12 C01 / 8 C04 groups; all 3!x|E|!x3! insertion orders on 6 models",
          "thorough": "(b) depth 4 on every engine; (c) 60 groups per environment"}
EXHAUSTIVE = {"quick": True, "thorough": True}
ASSUMPTIONS = ["order of model.cpds is not content", "model.fit / fit_update / inplace=True are documented to mutate and are not purity cases",
               "float32 back end compared with tolerance 1e-5"]

MODELS = [
    {"n": 3, "edges": [[0, 1], [0, 2], [1, 2]], "card": [2, 3, 2], "cols": {"fp": 0}},
    {"n": 3, "edges": [[0, 1], [1, 2]], "card": [2, 2, 2], "cols": {"fam": [1, 2, 1]}},
    {"n": 3, "edges": [[0, 2], [1, 2]], "card": [3, 2, 2], "cols": {"fp": 1}},
]


def groups(tier, seed):
    out = []
    for mi in range(len(MODELS)):
        for eng in ("ve", "bp", "ci", "sampling"):
            for first in range({"bp": 13, "ve": 11}.get(eng, 8)):
                out.append({"part": "hist", "model": mi, "engine": eng, "first": first, "depth": 4 if tier == "thorough" else 3})
    for mi in range(len(MODELS)):
        out.append({"part": "purity", "model": mi})
    for mi in range(len(MODELS)):
        out.append({"part": "purity-args", "model": mi})
    out.append({"part": "purity-data"})
    for mi in range(len(MODELS)):
        out.append({"part": "insertion", "model": mi})
    k = 12 if tier == "quick" else 60
    for hs in (1, 2, 3):
        out.append({"part": "env", "prop": "C01", "hashseed": hs, "backend": "numpy", "dtype": "float64", "count": k, "rot": seed})
    out.append({"part": "env", "prop": "C01", "hashseed": 0, "backend": "torch", "dtype": "float64", "count": k, "rot": seed})
    out.append({"part": "env", "prop": "C01", "hashseed": 2, "backend": "torch", "dtype": "float32", "count": max(4, k // 3), "rot": seed})
    out.append({"part": "env", "prop": "C03", "hashseed": 1, "backend": "numpy", "dtype": "float64", "count": max(4, k // 3), "rot": seed})
    out.append({"part": "env", "prop": "C04", "hashseed": 3, "backend": "numpy", "dtype": "float64", "count": 8, "rot": seed})
    out.append({"part": "env", "prop": "C02", "hashseed": 1, "backend": "numpy", "dtype": "float64", "count": 10, "rot": seed})
    out.append({"part": "env", "prop": "C02", "hashseed": 3, "backend": "numpy", "dtype": "float64", "count": 10, "rot": seed + 1})
    # file readers build parent orders from sets; conversions pick cliques / spanning trees by set order
    out.append({"part": "env", "prop": "C09", "hashseed": 1, "backend": "numpy", "dtype": "float64", "count": 8, "rot": seed})
    out.append({"part": "env", "prop": "C09", "hashseed": 2, "backend": "numpy", "dtype": "float64", "count": 8, "rot": seed + 3})
    out.append({"part": "env", "prop": "C14", "hashseed": 2, "backend": "numpy", "dtype": "float64", "count": 20, "rot": seed})
    out.append({"part": "env", "prop": "C12", "hashseed": 3, "backend": "numpy", "dtype": "float64", "count": 8, "rot": seed})
    return out


def run_group(g, tier):
    st = Stats()
    {"hist": _hist, "purity": _purity, "purity-args": _purity_args, "purity-data": _purity_data, "insertion": _insertion, "env": _env}[g["part"]](st, g)
    return st


def replay(case):
    st = Stats()
    g = case["g"]
    if g["part"] == "hist":
        _hist(st, g, only=case["history"])
    else:
        run = {"purity": _purity, "purity-args": _purity_args, "purity-data": _purity_data, "insertion": _insertion, "env": _env}[g["part"]]
        run(st, g)
        st.violations = [v for v in st.violations if v["site"] == case.get("site") and v["case"].get("api") == case.get("api")]
    return st.violations[:5]


# ------------------------------------------------------------------ snapshots
def snap_model(m):
    cp = []
    for c in m.cpds:
        cp.append((str(c.variable), [str(v) for v in c.variables], [int(x) for x in c.cardinality],
                   np.asarray(c.values, dtype=float).round(12).tolist(), {str(k): [str(s) for s in v] for k, v in c.state_names.items()}))
    return {"nodes": sorted(map(str, m.nodes())), "edges": sorted((str(a), str(b)) for a, b in m.edges()),
            "latents": sorted(map(str, getattr(m, "latents", []))), "cpds": sorted(cp, key=lambda x: x[0])}


def snap_df(df):
    return {"cols": list(map(str, df.columns)), "dtypes": [str(t) for t in df.dtypes], "vals": df.astype(str).values.tolist(), "index": list(map(str, df.index))}


def _model(mi, style="str", rounded=False):
    ref = bn_from_desc(MODELS[mi])
    lab = Labeling(ref.n, ref.card, "str", None, style)
    model = make_bn(ref, lab)
    if rounded:
        # tables as users type them: rounded to four decimals, columns summing to 0.9999 / 1.0001 (inside check_model's tolerance);
        # code that "repairs" such a column in place changes the caller's model
        from pgmpy.factors.discrete import TabularCPD

        for c in list(model.get_cpds()):
            if len(c.variables) == 1:
                k = int(c.cardinality[0])
                tot = k * (k + 1) / 2.0
                vals = [[int(10000 * (i + 1) / tot) / 10000.0] for i in range(k)]  # truncated, not rounded: the column sums to 0.9999 or less
                model.add_cpds(TabularCPD(c.variable, k, vals, state_names={c.variable: list(c.state_names[c.variable])}))
    return ref, lab, model


# ------------------------------------------------------------------ (b) histories
def _virt(lab, ref, v, lik):
    from pgmpy.factors.discrete import TabularCPD

    return [TabularCPD(lab.name(v), ref.card[v], [[x] for x in lik], state_names={lab.name(v): list(lab.states[v])})]


def _ve_alphabet(ref, lab):
    A, B, C = (lab.name(i) for i in range(3))
    lik = {2: (1, 0.5), 3: (1, 0.5, 0.25)}
    c1 = lab.state(2, 1)
    return [
        ("q[A]", lambda e: e.query([A], show_progress=False), ([0], {}, [])),
        ("q[A]|C", lambda e: e.query([A], evidence={C: c1}, show_progress=False), ([0], {2: 1}, [])),
        ("q[A,B]nj", lambda e: e.query([A, B], joint=False, show_progress=False), ([0, 1], {}, [], "nj")),
        ("q[B]|vA", lambda e: e.query([B], virtual_evidence=_virt(lab, ref, 0, lik[ref.card[0]]), show_progress=False), ([1], {}, [(0, lik[ref.card[0]])])),
        ("q[A]|vB", lambda e: e.query([A], virtual_evidence=_virt(lab, ref, 1, lik[ref.card[1]]), show_progress=False), ([0], {}, [(1, lik[ref.card[1]])])),
        ("map[A,B]|C", lambda e: e.map_query([A, B], evidence={C: c1}, show_progress=False), ([0, 1], {2: 1}, [], "map")),
        ("map[all]", lambda e: e.map_query([A, B, C], show_progress=False), ([0, 1, 2], {}, [], "map")),
        ("map()", lambda e: e.map_query(show_progress=False), ([0, 1, 2], {}, [], "map")),
        # the same node sets with query / evidence roles swapped (a cache keyed by the node set would confuse them)
        ("q[C]|B", lambda e: e.query([C], evidence={B: lab.state(1, 1)}, show_progress=False), ([2], {1: 1}, [])),
        ("q[B]|C", lambda e: e.query([B], evidence={C: lab.state(2, 0)}, show_progress=False), ([1], {2: 0}, [])),
        ("q[C]|A", lambda e: e.query([C], evidence={A: lab.state(0, 1)}, show_progress=False), ([2], {0: 1}, [])),
    ]


def _norm_answer(res):
    """canonical, comparable form of any answer"""
    import pandas as pd

    if isinstance(res, dict):
        return {str(k): _norm_answer(v) for k, v in sorted(res.items(), key=lambda kv: str(kv[0]))}
    if isinstance(res, pd.DataFrame):
        return {"df": res.astype(str).values.tolist(), "cols": sorted(map(str, res.columns))} if True else None
    if hasattr(res, "variables") and hasattr(res, "values"):
        vs, tab = named_table(res)
        return {"vars": sorted(map(str, vs)), "tab": sorted((sorted(map(str, k)), round(v, 9)) for k, v in tab.items())}
    if isinstance(res, (list, tuple, set, frozenset)):
        return sorted(map(str, res))
    return str(res)


def _check_ref(st, site, case, res, spec, ref, lab):
    """compare a VE/BP answer with the reference joint"""
    from fractions import Fraction as F

    q, ev, virt = spec[0], spec[1], spec[2]
    mode = spec[3] if len(spec) > 3 else "joint"
    post, _ = posterior(ref.joint(), q, ev, [(v, [F(x) for x in l]) for v, l in virt])
    st.compared += 1
    if mode == "map":
        want = {lab.name(v) for v in q}
        if not isinstance(res, dict) or set(res.keys()) != want:
            st.violation(site, "malformed-answer", case, _norm_answer(res), sorted(map(str, want)))
            return
        a = {v: lab.sidx[v].get(res[lab.name(v)]) for v in q}
        if None in a.values() or float(post.get(a)) < float(max(post.table.values())) - 1e-9:
            st.violation(site, "not-a-maximiser", case, _norm_answer(res), None)
        return
    from mc.props.c01 import check_answer

    d, obs = check_answer(res, post, q, lab, mode != "nj")
    if d:
        st.violation(site, "wrong-posterior", case, obs, d)


def _hist(st, g, only=None):
    from pgmpy.inference import BeliefPropagation, CausalInference, VariableElimination
    from pgmpy.sampling import BayesianModelSampling

    ref, lab, model = _model(g["model"])
    A, B, C = (lab.name(i) for i in range(3))
    eng = g["engine"]
    if eng in ("ve", "bp"):
        alpha = _ve_alphabet(ref, lab)
        mk = (lambda: VariableElimination(model)) if eng == "ve" else (lambda: BeliefPropagation(model))
        if eng == "bp":
            # calibration calls are part of the shared engine's history too
            def _cal(e, op):
                getattr(e, op)()
                return {str(sorted(map(str, k))): v.normalize(inplace=False) for k, v in e.get_clique_beliefs().items()}
            alpha = alpha + [("calibrate", lambda e: _cal(e, "calibrate"), None), ("max_calibrate", lambda e: _cal(e, "max_calibrate"), None)]
    elif eng == "ci":
        if not (model.has_edge(A, C) or model.has_edge(B, C)):
            return
        a0, b1, c1 = lab.state(0, 0), lab.state(1, 1), lab.state(2, 1)
        alpha = [
            ("ci.q[C]do(A)", lambda e: e.query([C], do={A: a0}, show_progress=False), None),
            ("ci.q[C]do(B)", lambda e: e.query([C], do={B: b1}, show_progress=False), None),
            ("ci.q[C]", lambda e: e.query([C], show_progress=False), None),
            ("ci.q[C]do(A)bp", lambda e: e.query([C], do={A: a0}, inference_algo="bp", show_progress=False), None),
            ("ci.q[A]|C", lambda e: e.query([A], evidence={C: c1}, show_progress=False), None),
            ("ci.backdoor(A,C)", lambda e: e.get_all_backdoor_adjustment_sets(A, C), None),
            ("ci.minadj(A,C)", lambda e: e.get_minimal_adjustment_set(A, C), None),
            ("ci.q[B,C]do(A)", lambda e: e.query([B, C], do={A: a0}, show_progress=False), None),
        ]
        mk = lambda: CausalInference(model)
    else:
        from pgmpy.factors.discrete import State

        c1 = lab.state(2, 1)
        alpha = [
            ("fs(2,s1)", lambda e: e.forward_sample(size=2, seed=1, show_progress=False, n_jobs=1), None),
            ("fs(3,s2)", lambda e: e.forward_sample(size=3, seed=2, show_progress=False, n_jobs=1), None),
            ("rs(C,2,s1)", lambda e: e.rejection_sample(evidence=[State(C, c1)], size=2, seed=1, show_progress=False), None),
            ("lw(C,2,s1)", lambda e: e.likelihood_weighted_sample(evidence=[State(C, c1)], size=2, seed=1, show_progress=False, n_jobs=1), None),
            ("lw(A,2,s3)", lambda e: e.likelihood_weighted_sample(evidence=[State(A, lab.state(0, 0))], size=2, seed=3, show_progress=False, n_jobs=1), None),
            ("rs(A,1,s2)", lambda e: e.rejection_sample(evidence=[State(A, lab.state(0, 1))], size=1, seed=2, show_progress=False), None),
            ("fs(1,s1)", lambda e: e.forward_sample(size=1, seed=1, show_progress=False, n_jobs=1), None),
            ("fs(2,s1,lat)", lambda e: e.forward_sample(size=2, seed=1, include_latents=True, show_progress=False, n_jobs=1), None),
        ]
        mk = lambda: BayesianModelSampling(model)
    snap0 = snap_model(model)
    # fresh-engine answers (also compared with the reference for VE/BP)
    fresh = {}
    for i, (nm, fn, spec) in enumerate(alpha):
        try:
            r = fn(mk())
            fresh[i] = ("ok", _norm_answer(r))
            if spec is not None and only is None and g["first"] == 0:
                st.evals += 1
                _check_ref(st, f"{eng}:{nm}(fresh)", {"g": g, "history": [i]}, r, spec, ref, lab)
        except Exception as ex:
            fresh[i] = ("exc", type(ex).__name__)
    hists = []
    for d in range(1, g["depth"] + 1):
        for tail in product(range(len(alpha)), repeat=d - 1):
            hists.append([g["first"]] + list(tail))
    seen_states = set()
    for h in hists:
        if only is not None and h != only:
            continue
        e = mk()
        case = {"g": g, "history": h, "names": [alpha[i][0] for i in h]}
        st.states += 1
        if any(alpha[i][0].endswith(("vA", "vB")) for i in h[:-1]):
            st.nt(tuple(h))
        ok = True
        for pos, i in enumerate(h):
            nm, fn, spec = alpha[i]
            try:
                r = ("ok", _norm_answer(fn(e)))
            except Exception as ex:
                r = ("exc", type(ex).__name__)
            if pos == len(h) - 1:
                st.evals += 1
                st.transitions += 1
                st.compared += 1
                if r != fresh[i]:
                    st.violation(f"{eng}:{nm}", "differs-from-fresh-engine", case, r, fresh[i])
                    ok = False
        try:
            seen_states.add(json.dumps(sorted(map(str, e.model.nodes()))))
        except Exception:
            pass
        st.compared += 1
        if snap_model(model) != snap0:
            st.violation(f"{eng}:history", "model-changed", case, None, None)
        st.outcome(hash(str(h)) & 0xFFFF)
    st.bump("engine_states_seen", len(seen_states))
    if len(st.samples) < 1:
        st.sample({"engine": eng, "alphabet": [a[0] for a in alpha], "history": hists[min(9, len(hists) - 1)]})


# ------------------------------------------------------------------ (a) purity
def _apis(ref, lab, model):
    """(name, thunk) pairs; every thunk gets fresh engines but the SAME model object"""
    from pgmpy.factors.discrete import State
    from pgmpy.inference import ApproxInference, BeliefPropagation, CausalInference, VariableElimination
    from pgmpy.readwrite import BIFWriter, NETWriter, UAIWriter, XMLBIFWriter
    from pgmpy.sampling import BayesianModelSampling, GibbsSampling

    A, B, C = (lab.name(i) for i in range(3))
    c1 = lab.state(2, 1)
    lik = {2: (1, 0.5), 3: (1, 0.5, 0.25)}
    import pandas as pd

    df1 = pd.DataFrame({A: [lab.state(0, 0), lab.state(0, 1)], B: [lab.state(1, 1), lab.state(1, 0)]})
    out = [
        ("VE.query", lambda: VariableElimination(model).query([A], evidence={C: c1}, show_progress=False)),
        ("VE.query(MinFill)", lambda: VariableElimination(model).query([A, B], evidence={C: c1}, elimination_order="MinFill", joint=False, show_progress=False)),
        ("VE.query(virtual)", lambda: VariableElimination(model).query([B], virtual_evidence=_virt(lab, ref, 0, lik[ref.card[0]]), show_progress=False)),
        ("VE.map_query", lambda: VariableElimination(model).map_query([A, B], evidence={C: c1}, show_progress=False)),
        ("VE.max_marginal", lambda: VariableElimination(model).max_marginal([A], evidence={C: c1}, show_progress=False)),
        ("VE.induced_graph", lambda: VariableElimination(model).induced_graph([A, B, C])),
        ("BP.calibrate", lambda: BeliefPropagation(model).calibrate()),
        ("BP.max_calibrate", lambda: BeliefPropagation(model).max_calibrate()),
        ("BP.query", lambda: BeliefPropagation(model).query([A], evidence={C: c1}, show_progress=False)),
        ("BP.query(virtual)", lambda: BeliefPropagation(model).query([B], virtual_evidence=_virt(lab, ref, 0, lik[ref.card[0]]), show_progress=False)),
        ("BP.map_query", lambda: BeliefPropagation(model).map_query([A, B], evidence={C: c1}, show_progress=False)),
        ("CausalInference.query", lambda: CausalInference(model).query([C], do={A: lab.state(0, 0)}, show_progress=False)),
        ("CausalInference.backdoor", lambda: CausalInference(model).get_all_backdoor_adjustment_sets(A, C)),
        ("predict", lambda: model.predict(df1, n_jobs=1)),
        ("predict_probability", lambda: model.predict_probability(df1)),
        ("get_state_probability", lambda: model.get_state_probability({A: lab.state(0, 0)})),
        ("to_markov_model", lambda: model.to_markov_model()),
        ("to_junction_tree", lambda: model.to_junction_tree()),
        ("to_markov_model.to_factor_graph", lambda: model.to_markov_model().to_factor_graph()),
        ("do", lambda: model.do([B])),
        ("copy+edit", lambda: _edit_copy(model.copy())),
        ("get_random_cpds(inplace=False)", lambda: model.get_random_cpds(n_states=2, inplace=False)),
        ("get_independencies", lambda: model.get_independencies()),
        ("get_markov_blanket", lambda: model.get_markov_blanket(A)),
        ("moralize", lambda: model.moralize()),
        ("is_iequivalent", lambda: model.is_iequivalent(model.copy())),
        ("forward_sample", lambda: BayesianModelSampling(model).forward_sample(size=3, seed=1, show_progress=False, n_jobs=1)),
        ("rejection_sample", lambda: BayesianModelSampling(model).rejection_sample(evidence=[State(C, c1)], size=2, seed=1, show_progress=False)),
        ("likelihood_weighted_sample", lambda: BayesianModelSampling(model).likelihood_weighted_sample(evidence=[State(C, c1)], size=2, seed=1, show_progress=False, n_jobs=1)),
        ("GibbsSampling.sample", lambda: GibbsSampling(model).sample(size=3, seed=1)),
        ("simulate", lambda: model.simulate(n_samples=3, seed=1, show_progress=False)),
        ("simulate(do,evidence)", lambda: model.simulate(n_samples=3, do={A: lab.state(0, 0)}, evidence={C: c1}, seed=1, show_progress=False)),
        ("simulate(virtual)", lambda: model.simulate(n_samples=3, virtual_evidence=_virt(lab, ref, 0, lik[ref.card[0]]), seed=1, show_progress=False)),
        ("ApproxInference.query", lambda: ApproxInference(model).query([A], n_samples=20, seed=1, show_progress=False)),
        ("BIFWriter", lambda: str(BIFWriter(model))),
        ("XMLBIFWriter", lambda: str(XMLBIFWriter(model))),
        ("UAIWriter", lambda: str(UAIWriter(model))),
        ("NETWriter", lambda: str(NETWriter(model))),
    ]
    return out


def _edit_copy(c):
    c.add_node("Znew", latent=True)
    cp = c.get_cpds()[0]
    cp.values[...] = 0.5
    nodes = list(c.nodes())
    c.remove_node(nodes[0])
    return c


def _purity(st, g):
    for style in ("str", "def", "rounded"):
        ref, lab, model = _model(g["model"], "str" if style == "rounded" else style, rounded=(style == "rounded"))
        snap0 = snap_model(model)
        order0 = [str(c.variable) for c in model.cpds]
        st.states += 1
        for name, thunk in _apis(ref, lab, model):
            case = {"g": g, "site": "purity", "api": name, "style": style}
            st.evals += 1
            st.transitions += 1
            st.nt((name, style))
            try:
                np.random.seed(7)
                thunk()
                err = None
            except Exception as ex:
                err = repr(ex)[:200]
            st.compared += 1
            after = snap_model(model)
            if after != snap0:
                diff = [k for k in snap0 if snap0[k] != after[k]]
                st.violation("purity", "model-changed", case, {"changed": diff, "error": err}, None)
                ref, lab, model = _model(g["model"], "str" if style == "rounded" else style, rounded=(style == "rounded"))  # continue with a clean model
                snap0 = snap_model(model)
            elif [str(c.variable) for c in model.cpds] != order0:
                st.bump("cpd-list-order-changed:" + name)
                order0 = [str(c.variable) for c in model.cpds]
            if err:
                st.bump("api-raised:" + name)
    st.sample({"model": MODELS[g["model"]], "apis": [a for a, _ in _apis(ref, lab, model)][:8]})


def snap_arg(x):
    """comparable deep snapshot of a call argument"""
    import pandas as pd

    if isinstance(x, pd.DataFrame):
        return ("df", snap_df(x))
    if hasattr(x, "variables") and hasattr(x, "values") and hasattr(x, "cardinality"):
        return ("factor", [str(v) for v in x.variables], [int(c) for c in x.cardinality], np.asarray(x.values, dtype=float).round(12).tolist(),
                {str(k): [str(s) for s in v] for k, v in x.state_names.items()})
    if isinstance(x, np.ndarray):
        return ("array", list(x.shape), np.asarray(x, dtype=float).round(12).tolist())
    if isinstance(x, dict):
        return ("dict", [(repr(k), snap_arg(v)) for k, v in x.items()])
    if isinstance(x, (set, frozenset)):
        return ("set", sorted(repr(v) for v in x))
    if isinstance(x, tuple) and hasattr(x, "_fields"):
        return ("nt", [repr(v) for v in x])
    if isinstance(x, (list, tuple)):
        return (type(x).__name__, [snap_arg(v) for v in x])
    return repr(x)


def _arg_apis(ref, lab, model):
    """(name, callable(**kwargs), kwargs): every mutable argument is snapshotted before and compared after the call"""
    import pandas as pd

    from pgmpy.factors.discrete import State
    from pgmpy.inference import ApproxInference, BeliefPropagation, CausalInference, VariableElimination
    from pgmpy.sampling import BayesianModelSampling

    A, B, C = (lab.name(i) for i in range(3))
    a0, a1, b1, c1 = lab.state(0, 0), lab.state(0, 1), lab.state(1, 1), lab.state(2, 1)
    lik = {2: (1, 0.5), 3: (1, 0.5, 0.25)}
    virt = lambda: _virt(lab, ref, 0, lik[ref.card[0]])
    df = lambda: pd.DataFrame({A: [a0, a1], B: [b1, lab.state(1, 0)]})
    roots = [v for v in (A, B) if not list(model.predecessors(v))]
    out = [
        ("VE.query", lambda **k: VariableElimination(model).query(show_progress=False, **k), {"variables": [A], "evidence": {C: c1}}),
        ("VE.query(order)", lambda **k: VariableElimination(model).query(show_progress=False, **k), {"variables": [A], "evidence": {C: c1}, "elimination_order": [B]}),
        ("VE.query(joint=False)", lambda **k: VariableElimination(model).query(show_progress=False, joint=False, **k), {"variables": [A, B], "evidence": {C: c1}}),
        ("VE.query(virtual)", lambda **k: VariableElimination(model).query(show_progress=False, **k), {"variables": [B], "evidence": {C: c1}, "virtual_evidence": virt()}),
        ("VE.map_query", lambda **k: VariableElimination(model).map_query(show_progress=False, **k), {"variables": [A, B], "evidence": {C: c1}}),
        ("VE.map_query(virtual)", lambda **k: VariableElimination(model).map_query(show_progress=False, **k), {"variables": [B], "evidence": {C: c1}, "virtual_evidence": virt()}),
        ("VE.max_marginal", lambda **k: VariableElimination(model).max_marginal(show_progress=False, **k), {"variables": [A], "evidence": {C: c1}}),
        ("BP.query", lambda **k: BeliefPropagation(model).query(show_progress=False, **k), {"variables": [A], "evidence": {C: c1}}),
        ("BP.query(virtual)", lambda **k: BeliefPropagation(model).query(show_progress=False, **k), {"variables": [B], "evidence": {C: c1}, "virtual_evidence": virt()}),
        ("BP.map_query", lambda **k: BeliefPropagation(model).map_query(show_progress=False, **k), {"variables": [A, B], "evidence": {C: c1}}),
        ("CausalInference.query(do)", lambda **k: CausalInference(model).query(show_progress=False, **k), {"variables": [C], "do": {A: a0}, "evidence": {}}),
        ("CausalInference.query(do,evidence)", lambda **k: CausalInference(model).query(show_progress=False, **k), {"variables": [C], "do": {A: a0}, "evidence": {B: b1}}),
        ("CausalInference.query(do B)", lambda **k: CausalInference(model).query(show_progress=False, **k), {"variables": [C], "do": {B: b1}, "evidence": {}}),
        ("CausalInference.query(do,adjustment=[])", lambda **k: CausalInference(model).query(show_progress=False, **k), {"variables": [C], "do": {B: b1}, "evidence": {A: a0}, "adjustment_set": []}),
        ("CausalInference.query(bp)", lambda **k: CausalInference(model).query(show_progress=False, inference_algo="bp", **k), {"variables": [C], "do": {A: a0}, "evidence": {B: b1}}),
        ("predict", lambda **k: model.predict(n_jobs=1, **k), {"data": df()}),
        ("predict_probability", lambda **k: model.predict_probability(**k), {"data": df()}),
        ("get_state_probability", lambda **k: model.get_state_probability(**k), {"states": {A: a0, C: c1}}),
        ("rejection_sample", lambda **k: BayesianModelSampling(model).rejection_sample(size=2, seed=1, show_progress=False, **k), {"evidence": [State(C, c1)]}),
        ("likelihood_weighted_sample", lambda **k: BayesianModelSampling(model).likelihood_weighted_sample(size=2, seed=1, show_progress=False, n_jobs=1, **k), {"evidence": [State(C, c1), State(A, a0)]}),
        ("simulate(do,evidence)", lambda **k: model.simulate(n_samples=3, seed=1, show_progress=False, **k), {"do": {roots[0] if roots else A: lab.state(0 if (roots[0] if roots else A) == A else 1, 0)}, "evidence": {C: c1}}),
        ("simulate(virtual)", lambda **k: model.simulate(n_samples=3, seed=1, show_progress=False, **k), {"virtual_evidence": virt(), "evidence": {C: c1}}),
        ("ApproxInference.query", lambda **k: ApproxInference(model).query(n_samples=20, seed=1, show_progress=False, **k), {"variables": [A], "evidence": {C: c1}}),
        ("do", lambda **k: model.do(**k), {"nodes": [B]}),
        ("active_trail_nodes", lambda **k: model.active_trail_nodes(**k), {"variables": [A], "observed": [C]}),
        ("is_dconnected", lambda **k: model.is_dconnected(A, B, **k), {"observed": [C]}),
        ("get_ancestral_graph", lambda **k: model.get_ancestral_graph(**k), {"nodes": [B]}),
        ("cpd.reorder_parents", lambda **k: model.get_cpds(C).reorder_parents(inplace=False, **k), {"new_order": list(model.get_cpds(C).variables[1:][::-1])}),
        ("cpd.marginalize", lambda **k: model.get_cpds(C).marginalize(inplace=False, **k), {"variables": list(model.get_cpds(C).variables[1:2])}),
        ("cpd.reduce", lambda **k: model.get_cpds(C).reduce(inplace=False, **k), {"values": [(v, lab.state(lab.id[v], 0)) for v in model.get_cpds(C).variables[1:2]]}),
        ("factor.reduce", lambda **k: model.get_cpds(C).to_factor().reduce(inplace=False, **k), {"values": [(C, c1)]}),
        ("factor.marginalize", lambda **k: model.get_cpds(C).to_factor().marginalize(inplace=False, **k), {"variables": [C]}),
    ]
    return out


def _purity_args(st, g):
    """the caller's argument objects (evidence / do dicts, variable lists, State lists, virtual-evidence CPDs, data frames) are untouched"""
    for style in ("str", "def"):
        ref, lab, model = _model(g["model"], style)
        snap0 = snap_model(model)
        st.states += 1
        for name, fn, kwargs in _arg_apis(ref, lab, model):
            case = {"g": g, "site": "purity-args", "api": name, "style": style}
            before = {k: snap_arg(v) for k, v in kwargs.items()}
            st.evals += 1
            st.transitions += 1
            st.nt((name, style))
            try:
                np.random.seed(7)
                fn(**kwargs)
                err = None
            except Exception as ex:
                err = repr(ex)[:200]
            st.compared += 1
            changed = [k for k, v in kwargs.items() if snap_arg(v) != before[k]]
            if changed:
                st.violation("purity-args", "argument-changed", case, {"changed": changed, "after": {k: str(snap_arg(kwargs[k]))[:200] for k in changed}, "error": err}, None)
            if snap_model(model) != snap0:
                st.violation("purity-args", "model-changed", case, {"error": err}, None)
                ref, lab, model = _model(g["model"], style)
            if err:
                st.bump("api-raised:" + name)
    st.sample({"model": MODELS[g["model"]], "apis": [a for a, _, _ in _arg_apis(ref, lab, model)][:8]})


def _dataset():
    import pandas as pd

    rows = [(0, 0, 0), (0, 1, 1), (1, 0, 1), (1, 1, 0), (0, 0, 1), (1, 1, 1), (0, 1, 0), (1, 0, 0), (1, 1, 1), (0, 0, 0), (1, 0, 1), (0, 1, 1)]
    return pd.DataFrame(rows, columns=["A", "B", "C"])


def _purity_data(st, g):
    """estimators / scores / structure search: data frame, model and start graph untouched"""
    import pandas as pd

    from pgmpy.base import DAG
    from pgmpy.estimators import (AICScore, BayesianEstimator, BDeuScore, BDsScore, BicScore, ExhaustiveSearch, HillClimbSearch, K2Score,
                                  MaximumLikelihoodEstimator, PC, TreeSearch)
    from pgmpy.models import BayesianNetwork

    def fresh():
        df = _dataset()
        m = BayesianNetwork([("A", "B"), ("B", "C")])
        start = DAG()
        start.add_nodes_from(["A", "B", "C"])
        start.add_edge("A", "C")
        return df, m, start

    def apis(df, m, start):
        return [
            ("MLE.get_parameters", lambda: MaximumLikelihoodEstimator(m, df).get_parameters(n_jobs=1)),
            ("MLE.estimate_cpd", lambda: MaximumLikelihoodEstimator(m, df).estimate_cpd("B")),
            ("BayesianEstimator.get_parameters", lambda: BayesianEstimator(m, df).get_parameters(prior_type="BDeu", equivalent_sample_size=5, n_jobs=1)),
            ("BayesianEstimator.estimate_cpd(K2)", lambda: BayesianEstimator(m, df).estimate_cpd("C", prior_type="K2")),
            ("K2Score.score", lambda: K2Score(df).score(m)),
            ("BDeuScore.local_score", lambda: BDeuScore(df).local_score("C", ["A", "B"])),
            ("BDsScore.score", lambda: BDsScore(df).score(m)),
            ("BicScore.score", lambda: BicScore(df).score(m)),
            ("AICScore.score", lambda: AICScore(df).score(m)),
            ("HillClimbSearch.estimate", lambda: HillClimbSearch(df).estimate(scoring_method="k2", show_progress=False)),
            ("HillClimbSearch.estimate(start_dag)", lambda: HillClimbSearch(df).estimate(scoring_method="bic", start_dag=start, show_progress=False)),
            ("HillClimbSearch.estimate(fixed,black)", lambda: HillClimbSearch(df).estimate(scoring_method="bdeu", start_dag=start, fixed_edges={("A", "C")}, black_list=[("B", "A")], show_progress=False)),
            ("ExhaustiveSearch.estimate", lambda: ExhaustiveSearch(df).estimate()),
            ("TreeSearch.estimate", lambda: TreeSearch(df, root_node="A").estimate(show_progress=False)),
            ("TreeSearch.estimate(tan)", lambda: TreeSearch(df, root_node="A").estimate(estimator_type="tan", class_node="C", show_progress=False)),
            ("PC.estimate", lambda: PC(df).estimate(ci_test="chi_square", show_progress=False)),
            ("DAG.fit", lambda: DAG([("A", "B"), ("B", "C")]).fit(df)),
        ]
    # the same for mutable option arguments (state_names, pseudo counts, edge lists, white / black lists, node lists)
    def arg_apis(df, m, start):
        sn = {"A": [0, 1], "B": [0, 1], "C": [0, 1]}
        return [
            ("MLE(state_names)", lambda **k: MaximumLikelihoodEstimator(m, df, **k).get_parameters(n_jobs=1), {"state_names": sn}),
            ("BayesianEstimator.estimate_cpd(dirichlet array)", lambda **k: BayesianEstimator(m, df).estimate_cpd("C", prior_type="dirichlet", **k), {"pseudo_counts": np.ones((2, 2))}),
            ("BayesianEstimator.get_parameters(dirichlet dict)", lambda **k: BayesianEstimator(m, df).get_parameters(prior_type="dirichlet", n_jobs=1, **k),
             {"pseudo_counts": {"A": np.ones((2, 1)), "B": np.ones((2, 2)), "C": np.ones((2, 2))}}),
            ("BayesianEstimator.get_parameters(ess dict)", lambda **k: BayesianEstimator(m, df).get_parameters(prior_type="BDeu", n_jobs=1, **k), {"equivalent_sample_size": {"A": 5, "B": 2, "C": 7}}),
            ("model.fit(state_names)", lambda **k: m.copy().fit(df, **k), {"state_names": sn}),
            ("HillClimbSearch.estimate(lists)", lambda **k: HillClimbSearch(df).estimate(scoring_method="k2", show_progress=False, **k),
             {"fixed_edges": {("A", "C")}, "black_list": [("B", "A")], "white_list": [("A", "C"), ("A", "B"), ("B", "C"), ("C", "B")]}),
            ("HillClimbSearch.estimate(fixed list)", lambda **k: HillClimbSearch(df).estimate(scoring_method="bic", show_progress=False, **k), {"fixed_edges": [("A", "C")], "start_dag": start}),
            ("BDeuScore.local_score(parents)", lambda **k: BDeuScore(df).local_score("C", **k), {"parents": ["B", "A"]}),
            ("K2Score(state_names)", lambda **k: K2Score(df, **k).score(m), {"state_names": sn}),
            ("PC.estimate", lambda **k: PC(df).estimate(ci_test="chi_square", show_progress=False, n_jobs=1, **k), {"significance_level": 0.05}),
            ("DAG.fit(state_names)", lambda **k: DAG([("A", "B"), ("B", "C")]).fit(df, **k), {"state_names": sn}),
        ]
    df, m, start = fresh()
    for name, _, _ in arg_apis(df, m, start):
        df, m, start = fresh()
        _, fn, kwargs = [a for a in arg_apis(df, m, start) if a[0] == name][0]
        before = {k: (snap_arg(v) if k != "start_dag" else (sorted(v.nodes()), sorted(v.edges()))) for k, v in kwargs.items()}
        s_df, s_m = snap_df(df), snap_model(m)
        case = {"g": g, "site": "purity-data", "api": "args:" + name}
        st.evals += 1
        st.transitions += 1
        st.nt("args:" + name)
        try:
            fn(**kwargs)
            err = None
        except Exception as ex:
            err = repr(ex)[:200]
        st.compared += 1
        changed = [k for k, v in kwargs.items() if (snap_arg(v) if k != "start_dag" else (sorted(v.nodes()), sorted(v.edges()))) != before[k]]
        if snap_df(df) != s_df:
            changed.append("data")
        if snap_model(m) != s_m:
            changed.append("model")
        if changed:
            st.violation("purity-data", "argument-changed", case, {"changed": changed, "error": err}, None)
        if err:
            st.bump("api-raised:args:" + name)
    df, m, start = fresh()
    st.states += 1
    for name, _ in apis(df, m, start):
        df, m, start = fresh()
        thunk = dict(apis(df, m, start))[name]
        s_df, s_m, s_start = snap_df(df), snap_model(m), (sorted(start.nodes()), sorted(start.edges()))
        case = {"g": g, "site": "purity-data", "api": name}
        st.evals += 1
        st.transitions += 1
        st.nt(name)
        try:
            res = thunk()
            err = None
        except Exception as ex:
            res, err = None, repr(ex)[:200]
        st.compared += 1
        changed = []
        if snap_df(df) != s_df:
            changed.append("data")
        if snap_model(m) != s_m:
            changed.append("model")
        if (sorted(start.nodes()), sorted(start.edges())) != s_start:
            changed.append("start_dag")
        if res is start and res is not None:
            changed.append("returned-the-callers-start_dag-object")
        if changed:
            st.violation("purity-data", "argument-changed", case, {"changed": changed, "error": err}, None)
        if err:
            st.bump("api-raised:" + name)
    st.sample({"apis": [a for a, _ in apis(df, m, start)]})


# ------------------------------------------------------------------ (c) insertion orders
def _insertion(st, g):
    from pgmpy.inference import BeliefPropagation, VariableElimination

    ref = bn_from_desc(MODELS[g["model"]])
    lab = Labeling(ref.n, ref.card, "str", None, "str")
    joint = ref.joint()
    edges = ref.edges()
    qs = [([0], {}), ([1], {2: 1}), ([0, 2], {1: 0}), ([2], {0: 1})]
    st.states += 1
    for no in permutations(range(ref.n)):
        for eo in permutations(edges):
            for co in permutations(range(ref.n)):
                model = make_bn(ref, lab, node_order=list(no), edge_order=list(eo), cpd_order=list(co))
                for q, ev in qs:
                    post, pe = posterior(joint, q, ev)
                    if post is None:
                        continue
                    for site, fn in (("VE.query", lambda: VariableElimination(model).query([lab.name(v) for v in q], evidence=lab.ev(ev) or None, show_progress=False)),
                                     ("VE.query(MinFill)", lambda: VariableElimination(model).query([lab.name(v) for v in q], evidence=lab.ev(ev) or None, elimination_order="MinFill", show_progress=False)),
                                     ("BP.query", lambda: BeliefPropagation(model).query([lab.name(v) for v in q], evidence=lab.ev(ev) or None, show_progress=False))):
                        if site == "BP.query" and (no != tuple(range(ref.n)) and co != tuple(range(ref.n))):
                            continue
                        case = {"g": g, "site": site, "api": None, "node_order": list(no), "edge_order": [list(e) for e in eo], "cpd_order": list(co), "q": q, "e": [list(x) for x in ev.items()]}
                        st.evals += 1
                        st.transitions += 1
                        try:
                            res = fn()
                        except Exception as ex:
                            st.violation(site, "exception", case, repr(ex)[:200])
                            continue
                        st.compared += 1
                        d = cmp_named(named_table(res), ref_named(post, lab))
                        if d:
                            st.violation(site, "wrong-posterior", case, None, d)
                st.nt((no, eo, co))


# ------------------------------------------------------------------ (c) environments
def _env(st, g):
    """re-run groups of another property module in a sub-process with another hash seed / back end / dtype"""
    import importlib

    mod = importlib.import_module("mc.props." + g["prop"].lower())
    allg = [x for x in mod.groups("quick", 0) if x.get("kind") not in ("mn5", "tri5") and x.get("part") not in ("s2p5", "pc5", "star")]
    # deterministic spread over the module's group list (rotated by VERIF_SEED)
    step = max(1, len(allg) // g["count"])
    sel = [allg[(i * step + g["rot"]) % len(allg)] for i in range(g["count"])]
    if g["prop"] == "C04":
        sel = [dict(x, backend=g["backend"]) for x in sel]
    env = dict(os.environ)
    env["PYTHONHASHSEED"] = str(g["hashseed"])
    env["VERIF_BACKEND"] = g["backend"]
    env["VERIF_DTYPE"] = g["dtype"]
    if g["dtype"] == "float32":
        env["VERIF_TOL"] = "1e-5"
    root = os.path.dirname(os.path.dirname(os.path.dirname(os.path.abspath(__file__))))
    p = subprocess.run([sys.executable, "-W", "ignore", "-m", "mc.subproc", g["prop"]], input=json.dumps(sel), capture_output=True, text=True, cwd=root, env=env)
    if p.returncode != 0:
        st.harness_errors.append({"group": g, "trace": p.stderr[-1500:]})
        return
    sub = Stats.unpack(p.stdout.strip().splitlines()[-1])
    tag = f"[hashseed={g['hashseed']},{g['backend']},{g['dtype']}]"
    st.states += 1
    st.nt((g["prop"], g["hashseed"], g["backend"], g["dtype"]))
    from mc import findings

    for v in sub.violations:
        if findings.match(g["prop"], v):
            st.bump("inner-known-finding:" + g["prop"])  # recorded under that property's own check
            continue
        st.violation(g["prop"] + ":" + str(v["site"]) + tag, v["kind"], {"g": g, "site": g["prop"] + ":" + str(v["site"]) + tag, "api": None, "inner": v["case"]}, v["observed"], v["expected"])
    st.evals += sub.evals
    st.compared += sub.compared
    st.transitions += sub.transitions
    st.outcomes |= sub.outcomes
    st.bump("env-runs")
    if sub.harness_errors:
        st.harness_errors.extend(sub.harness_errors)
