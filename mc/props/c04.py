"""C04 factor algebra: E1 over scopes x axis orders x cardinalities x value
patterns x state-name styles x back ends; oracle = pointwise reference."""
import copy
from fractions import Fraction as F
from itertools import permutations, product

import numpy as np

from mc.build import Labeling, cmp_named, named_table, ref_named, tbl_json
from mc.gen.dags import subsets
from mc.ref.discrete import RefFactor, assignments
from mc.stats import Stats

EXPLORER = "E1"
RULE = ("E1: every ordered pair of ordered scopes over a 3-variable universe x cardinality vectors {1,2,3}^3 x value "
        "patterns {fingerprint, zeros, equal} x state-name styles x {numpy, torch}; every op (product/sum/divide/"
        "marginalize/maximize/reduce/normalize/copy/==, operators, n-ary helpers) compared pointwise on named "
        "assignments with a Fraction reference; non-trivial = operand pair with overlapping-but-unequal scopes or "
        "axis orders differing from sorted order (distinct (group, scopes) keys counted)")
BOUNDS = {
    "quick": "cardvecs {1,2,3}^3 (27) x 3 patterns, style=def, numpy: full product of ordered scope pairs (15x15); "
             "deviation bound 1 on style (5 styles) and back end (torch) on 4 cardvecs",
    "thorough": "full product cardvecs x patterns x 6 styles x 2 back ends; four variables: 4 cardinality vectors x 3 patterns x 3 (style, back end) pairs, all 64x64 ordered scope pairs",
}
EXHAUSTIVE = {"quick": True, "thorough": True}
ASSUMPTIONS = ["operands that share a variable agree on its state list (as the property requires)",
               "values are small integers / dyadic rationals so float arithmetic is exact up to 1e-12"]

U = (0, 1, 2)
PATTERNS = ("fp", "zeros", "equal")
STYLES = ["def", "str", "rot", "shift", "tuple", "mixed"]


def ordered_scopes():
    out = []
    for s in subsets(U):
        if s:
            out.extend(permutations(s))
    return out


def value(pattern, op, card, asg):
    """value of operand `op` at assignment asg (dict id->state)"""
    idx, stride = 0, 1
    for v in U:
        if v in asg:
            idx += asg[v] * stride
        stride *= card[v]
    if pattern == "equal":
        return F(2 + op)
    val = F(2 * idx + 1 + 2 * op * 29)
    if pattern == "zeros" and (idx + op) % 3 == 0:
        return F(0)
    return val


def ref_factor(pattern, op, card, scope):
    t = {}
    for st in assignments([card[v] for v in scope]):
        t[st] = value(pattern, op, card, dict(zip(scope, st)))
    return RefFactor(scope, card, t)


def mk(rf, lab):
    from pgmpy.factors.discrete import DiscreteFactor

    vals = [float(rf.table[st]) for st in assignments([rf.card[v] for v in rf.vars])]
    return DiscreteFactor([lab.name(v) for v in rf.vars], [rf.card[v] for v in rf.vars], vals,
                          state_names=lab.state_names_arg(rf.vars))


def snap(phi):
    vals = phi.values
    if hasattr(vals, "numpy"):
        vals = vals.numpy()
    return (list(phi.variables), [int(c) for c in phi.cardinality], np.array(vals, dtype=float).tolist(),
            copy.deepcopy(phi.state_names), copy.deepcopy(phi.no_to_name), copy.deepcopy(phi.name_to_no))


def groups(tier, seed):
    cvs = list(product((1, 2, 3), repeat=3))
    out = []
    if tier == "quick":
        for cv in cvs:
            for pat in PATTERNS:
                out.append({"card": list(cv), "pattern": pat, "style": "def", "backend": "numpy"})
        dev = [(2, 3, 2), (3, 2, 2), (1, 2, 3), (2, 2, 3)]
        k = seed % len(cvs)
        if cvs[k] not in dev:
            dev.append(cvs[k])
        for cv in dev:
            for st in STYLES[1:]:
                out.append({"card": list(cv), "pattern": "fp", "style": st, "backend": "numpy"})
            out.append({"card": list(cv), "pattern": "zeros", "style": "def", "backend": "torch"})
            out.append({"card": list(cv), "pattern": "fp", "style": "str", "backend": "torch"})
    else:
        for cv in cvs:
            for pat in PATTERNS:
                for st in STYLES:
                    for be in ("numpy", "torch"):
                        out.append({"card": list(cv), "pattern": pat, "style": st, "backend": be})
        # four variables: 64 ordered scopes, every ordered pair
        for cv in ((2, 3, 2, 2), (3, 2, 2, 3), (1, 2, 3, 2), (2, 2, 2, 2)):
            for pat in PATTERNS:
                for st, be in (("str", "numpy"), ("def", "torch"), ("mixed", "numpy")):
                    out.append({"card": list(cv), "pattern": pat, "style": st, "backend": be})
    return out


def _set_universe(g):
    global U
    U = tuple(range(len(g["card"])))


def run_group(g, tier):
    st = Stats()
    _set_universe(g)
    scopes = ordered_scopes()
    for s1 in scopes:
        _unary(g, s1, st)
        for s2 in scopes:
            _binary(g, s1, s2, st)
    _nary(g, st)
    st.sample({"group": g, "scopes": [list(scopes[4]), list(scopes[9])]})
    return st


def replay(case):
    st = Stats()
    g = case["group"]
    _set_universe(g)
    if case["what"] == "unary":
        _unary(g, tuple(case["s1"]), st)
    elif case["what"] == "binary":
        _binary(g, tuple(case["s1"]), tuple(case["s2"]), st)
    else:
        _nary(g, st)
    # the recorded case names the call site; the kind of the violation found there may be more specific than the case's own label
    same_kind = [v for v in st.violations if (v["site"], v["kind"]) == (case.get("site"), case.get("kind"))]
    return same_kind or [v for v in st.violations if not case.get("site") or v["site"] == case.get("site")]


class _Ctx:
    def __init__(self, g):
        from pgmpy.global_vars import config

        self.g = g
        self.card = dict(zip(U, g["card"]))
        self.lab = Labeling(len(U), self.card, "str", None, g["style"])
        self.config = config

    def __enter__(self):
        if self.g["backend"] == "torch":
            self.config.set_backend("torch")
        return self

    def __exit__(self, *a):
        if self.g["backend"] == "torch":
            self.config.set_backend("numpy")


def _check(st, site, case, phi, rf, lab, tol=1e-9):
    st.evals += 1
    st.compared += 1
    try:
        obs = named_table(phi)
    except Exception as e:  # malformed factor
        st.violation(site, "malformed-result", case, repr(e), None)
        return False
    exp = ref_named(rf, lab)
    d = cmp_named(obs, exp, tol)
    if d is None:
        # cardinalities and state names of the result
        for v in rf.vars:
            nm = lab.name(v)
            if list(phi.state_names[nm]) != list(lab.states[v]):
                d = f"state names of {nm!r}: {phi.state_names[nm]} != {lab.states[v]}"
            if int(phi.get_cardinality([nm])[nm]) != rf.card[v]:
                d = f"cardinality of {nm!r}"
    if d is not None:
        st.violation(site, "wrong-value", case, tbl_json(obs), d)
        return False
    st.outcome(tuple(sorted(obs[1].values())))
    return True


def _unchanged(st, site, case, phi, before, what):
    st.compared += 1
    after = snap(phi)
    if after != before:
        st.violation(site, "operand-mutated", case, what, None)
        return False
    return True


def _poke(res):
    """mutate a result in place as a user could"""
    try:
        if hasattr(res.values, "numpy"):
            res.values += 1000.0
        else:
            res.values += 1000.0
        if res.variables:
            v = res.variables[0]
            res.state_names[v].append("__poke__") if False else None
            res.cardinality[0] += 0
    except Exception:
        pass


def _unary(g, s1, st):
    with _Ctx(g) as c:
        card, lab = c.card, c.lab
        ra = ref_factor(g["pattern"], 0, card, s1)
        base = {"group": g, "what": "unary", "s1": list(s1)}
        st.states += 1
        if list(s1) != sorted(s1):
            st.nt(("u", s1))

        def case(site, kind="wrong-value"):
            d = dict(base)
            d["site"], d["kind"] = site, kind
            return d

        # copy
        a = mk(ra, lab)
        b0 = snap(a)
        cp = a.copy()
        _check(st, "copy", case("copy"), cp, ra, lab)
        _poke(cp)
        _unchanged(st, "copy", case("copy", "operand-mutated"), a, b0, "copy aliased with source")
        st.transitions += 1
        # marginalize / maximize every non-empty subset
        for sub in subsets(s1):
            if not sub:
                continue
            for perm in ([sub] if len(sub) < 2 else [sub, sub[::-1]]):
                for opname, refop in (("marginalize", "sum"), ("maximize", "max")):
                    exp = ra.marginalize(set(perm), refop)
                    for inplace in (False, True):
                        a = mk(ra, lab)
                        b0 = snap(a)
                        site = f"{opname}(inplace={inplace})"
                        try:
                            r = getattr(a, opname)([lab.name(v) for v in perm], inplace=inplace)
                        except Exception as e:
                            if len(perm) == len(s1):
                                st.bump("full-elimination-raises")
                                continue
                            st.evals += 1
                            st.violation(site, "exception", case(site, "exception"), repr(e), None)
                            continue
                        st.transitions += 1
                        res = a if inplace else r
                        if len(perm) == len(s1):
                            # empty scope after elimination: compare the scalar
                            st.evals += 1
                            st.compared += 1
                            try:
                                val = float(np.asarray(res.values if not hasattr(res.values, "numpy") else res.values.numpy()).reshape(-1)[0])
                                ok = abs(val - float(exp.table[()])) < 1e-9 and list(res.variables) == []
                            except Exception:
                                ok = False
                            if not ok:
                                st.violation(site, "wrong-value", case(site), None, float(exp.table[()]))
                        else:
                            _check(st, site, case(site), res, exp, lab)
                        if not inplace:
                            _poke(res)
                            _unchanged(st, site, case(site, "operand-mutated"), a, b0, "operand changed")
        # reduce: every assignment of every non-empty proper-or-full subset
        for sub in subsets(s1):
            if not sub:
                continue
            for stt in assignments([card[v] for v in sub]):
                ev = dict(zip(sub, stt))
                exp = ra.reduce(ev)
                for inplace in (False, True):
                    a = mk(ra, lab)
                    b0 = snap(a)
                    site = f"reduce(inplace={inplace})"
                    try:
                        r = a.reduce([(lab.name(v), lab.state(v, s)) for v, s in ev.items()], inplace=inplace)
                    except Exception as e:
                        st.evals += 1
                        st.violation(site, "exception", case(site, "exception"), repr(e), {"ev": str(ev)})
                        continue
                    st.transitions += 1
                    res = a if inplace else r
                    if len(sub) == len(s1):
                        st.evals += 1
                        st.compared += 1
                        try:
                            val = float(np.asarray(res.values if not hasattr(res.values, "numpy") else res.values.numpy()).reshape(-1)[0])
                            ok = abs(val - float(exp.table[()])) < 1e-9
                        except Exception:
                            ok = False
                        if not ok:
                            st.violation(site, "wrong-value", case(site), None, float(exp.table[()]))
                    else:
                        _check(st, site, case(site), res, exp, lab)
                    if not inplace:
                        _poke(res)
                        _unchanged(st, site, case(site, "operand-mutated"), a, b0, "operand changed")
        # normalize
        if ra.total() != 0:
            exp = ra.normalize()
            for inplace in (False, True):
                a = mk(ra, lab)
                b0 = snap(a)
                site = f"normalize(inplace={inplace})"
                r = a.normalize(inplace=inplace)
                st.transitions += 1
                res = a if inplace else r
                _check(st, site, case(site), res, exp, lab)
                if not inplace:
                    _poke(res)
                    _unchanged(st, site, case(site, "operand-mutated"), a, b0, "operand changed")
        # scalar operands
        for k in (2, 0.5):
            a = mk(ra, lab)
            b0 = snap(a)
            kk = F(k)
            cf = RefFactor.const(kk)
            for site, fn, exp in ((f"*{k}", lambda x: x * k, ra.product(cf)), (f"{k}*", lambda x: k * x, ra.product(cf)),
                                  (f"+{k}", lambda x: x + k, ra.add(cf)), (f"{k}+", lambda x: k + x, ra.add(cf)),
                                  (f"product({k})", lambda x: x.product(k, inplace=False), ra.product(cf)),
                                  (f"sum({k})", lambda x: x.sum(k, inplace=False), ra.add(cf))):
                try:
                    r = fn(a)
                except Exception as e:
                    st.evals += 1
                    st.violation("scalar" + site, "exception", case("scalar" + site, "exception"), repr(e), None)
                    continue
                st.transitions += 1
                _check(st, "scalar" + site, case("scalar" + site), r, exp.reorder(ra.vars) if set(exp.vars) == set(ra.vars) else exp, lab)
                _poke(r)
                _unchanged(st, "scalar" + site, case("scalar" + site, "operand-mutated"), a, b0, "operand changed")
        # equality under axis / state permutation
        _equality(g, s1, ra, lab, card, st, case)


def _equality(g, s1, ra, lab, card, st, case):
    from pgmpy.factors.discrete import DiscreteFactor

    a = mk(ra, lab)
    for perm in permutations(s1):
        rb = ra.reorder(perm)
        # state permutation of the first variable of perm (reverse order) -- same function
        for rev in (False, True, "rot"):
            names = {v: list(lab.states[v]) for v in perm}
            order = {v: list(range(card[v])) for v in perm}
            if rev is True:
                v0 = perm[0]
                order[v0] = order[v0][::-1]
                names[v0] = names[v0][::-1]
            elif rev == "rot":
                # a cyclic shift of the state list of EVERY variable (not self-inverse for three or more states)
                if max(card[v] for v in perm) < 3:
                    continue
                for v in perm:
                    order[v] = order[v][1:] + order[v][:1]
                    names[v] = names[v][1:] + names[v][:1]
            vals = []
            for stt in product(*[order[v] for v in perm]):
                vals.append(float(rb.table[stt]))
            b = DiscreteFactor([lab.name(v) for v in perm], [card[v] for v in perm], vals,
                               state_names={lab.name(v): names[v] for v in perm})
            for eps, want in ((0.0, True), (1e-12, True), (1e-2 * 5, False)):
                bb = b.copy()
                if eps:
                    flat = bb.values.reshape(-1) if not hasattr(bb.values, "numpy") else bb.values.view(-1)
                    flat[len(vals) - 1] += eps
                site = "__eq__"
                st.evals += 1
                st.compared += 1
                st.transitions += 1
                try:
                    got = (a == bb)
                    got2 = not (a != bb)
                except Exception as e:
                    st.violation(site, "exception", case(site, "exception"), repr(e), None)
                    continue
                if bool(got) != want or bool(got2) != want:
                    st.violation(site, "wrong-verdict", case(site, "wrong-verdict"),
                                 {"eq": bool(got), "perm": list(perm), "rev": rev, "eps": eps}, want)
    # different function on the same scope must be unequal
    rz = ref_factor(g["pattern"], 1, card, s1)
    if rz.table != ra.table:
        b = mk(rz, lab)
        st.evals += 1
        st.compared += 1
        if a == b:
            st.violation("__eq__", "wrong-verdict", case("__eq__", "wrong-verdict"), True, False)


def _binary(g, s1, s2, st):
    from pgmpy.factors.base import factor_divide, factor_product

    with _Ctx(g) as c:
        card, lab = c.card, c.lab
        pat = g["pattern"]
        ra, rb = ref_factor(pat, 0, card, s1), ref_factor(pat, 1, card, s2)
        base = {"group": g, "what": "binary", "s1": list(s1), "s2": list(s2)}
        st.states += 1
        ov = set(s1) & set(s2)
        if (ov and set(s1) != set(s2)) or list(s1) != sorted(s1) or list(s2) != sorted(s2):
            st.nt(("b", s1, s2))

        def case(site, kind="wrong-value"):
            d = dict(base)
            d["site"], d["kind"] = site, kind
            return d

        ops = [("product", ra.product(rb), lambda x, y, ip: x.product(y, inplace=ip)),
               ("sum", ra.add(rb), lambda x, y, ip: x.sum(y, inplace=ip))]
        if set(s2) <= set(s1):
            ops.append(("divide", ra.divide(rb), lambda x, y, ip: x.divide(y, inplace=ip)))
        for name, exp, fn in ops:
            for inplace in (False, True):
                a, b = mk(ra, lab), mk(rb, lab)
                a0, b0 = snap(a), snap(b)
                site = f"{name}(inplace={inplace})"
                try:
                    r = fn(a, b, inplace)
                except Exception as e:
                    st.evals += 1
                    st.violation(site, "exception", case(site, "exception"), repr(e), None)
                    continue
                st.transitions += 1
                res = a if inplace else r
                ok = _check(st, site, case(site), res, exp, lab)
                _poke(res)
                if not inplace:
                    _unchanged(st, site, case(site, "operand-mutated"), a, a0, "left operand changed")
                _unchanged(st, site, case(site, "operand-mutated"), b, b0, "right operand changed")
        # operator forms and helpers (out of place by definition)
        forms = [("a*b", ra.product(rb), lambda x, y: x * y), ("a+b", ra.add(rb), lambda x, y: x + y),
                 ("factor_product(a,b)", ra.product(rb), lambda x, y: factor_product(x, y))]
        if set(s2) <= set(s1):
            forms.append(("a/b", ra.divide(rb), lambda x, y: x / y))
            forms.append(("factor_divide(a,b)", ra.divide(rb), lambda x, y: factor_divide(x, y)))
        for site, exp, fn in forms:
            a, b = mk(ra, lab), mk(rb, lab)
            a0, b0 = snap(a), snap(b)
            try:
                r = fn(a, b)
            except Exception as e:
                st.evals += 1
                st.violation(site, "exception", case(site, "exception"), repr(e), None)
                continue
            st.transitions += 1
            _check(st, site, case(site), r, exp, lab)
            _poke(r)
            _unchanged(st, site, case(site, "operand-mutated"), a, a0, "left operand changed")
            _unchanged(st, site, case(site, "operand-mutated"), b, b0, "right operand changed")
        # algebraic commuting laws: marginalise a shared var after product == reference
        for v in sorted(set(s1) | set(s2)):
            exp = ra.product(rb).marginalize({v})
            if not exp.vars:
                continue
            a, b = mk(ra, lab), mk(rb, lab)
            site = "product-then-marginalize"
            try:
                r = (a * b).marginalize([lab.name(v)], inplace=False)
            except Exception as e:
                st.evals += 1
                st.violation(site, "exception", case(site, "exception"), repr(e), None)
                continue
            st.transitions += 1
            _check(st, site, case(site), r, exp, lab)


def _nary(g, st):
    """three operands: all 6 orders and both bracketings; factor_sum_product; FactorSet"""
    from pgmpy.factors import FactorSet
    from pgmpy.factors.base import factor_product, factor_sum_product

    with _Ctx(g) as c:
        card, lab = c.card, c.lab
        pat = g["pattern"]
        base = {"group": g, "what": "nary"}

        def case(site, kind="wrong-value"):
            d = dict(base)
            d["site"], d["kind"] = site, kind
            return d

        triples = [((0, 1), (1, 2), (2, 0)), ((1, 0), (2,), (0, 2, 1)), ((0,), (1,), (2,)), ((2, 1), (1, 2), (0, 1, 2))]
        for tr in triples:
            rfs = [ref_factor(pat, i, card, s) for i, s in enumerate(tr)]
            exp = rfs[0].product(rfs[1]).product(rfs[2])
            st.states += 1
            st.nt(("n", tr))
            for order in permutations(range(3)):
                fs = [mk(rfs[i], lab) for i in order]
                snaps = [snap(f) for f in fs]
                variants = [("factor_product(3)", lambda x: factor_product(*x)),
                            ("(a*b)*c", lambda x: (x[0] * x[1]) * x[2]), ("a*(b*c)", lambda x: x[0] * (x[1] * x[2]))]
                for site, fn in variants:
                    try:
                        r = fn(fs)
                    except Exception as e:
                        st.evals += 1
                        st.violation(site, "exception", case(site, "exception"), repr(e), None)
                        continue
                    st.transitions += 1
                    _check(st, site, case(site), r, exp, lab)
                    for f, s0 in zip(fs, snaps):
                        _unchanged(st, site, case(site, "operand-mutated"), f, s0, "operand changed")
                # factor_sum_product for every output var subset
                for out in subsets((0, 1, 2)):
                    if not out or len(out) == 3:
                        continue
                    e2 = exp.marginalize(set(exp.vars) - set(out))
                    site = "factor_sum_product"
                    try:
                        r = factor_sum_product([lab.name(v) for v in out], fs)
                    except Exception as e:
                        st.evals += 1
                        st.violation(site, "exception", case(site, "exception"), repr(e), None)
                        continue
                    st.transitions += 1
                    _check(st, site, case(site), r, e2, lab)
                    for f, s0 in zip(fs, snaps):
                        _unchanged(st, site, case(site, "operand-mutated"), f, s0, "operand changed")
            # FactorSet product / marginalize (set semantics: product of all members)
            fs = [mk(r, lab) for r in rfs]
            if len({(tuple(f.variables), tuple(np.asarray(f.values if not hasattr(f.values, 'numpy') else f.values.numpy()).reshape(-1))) for f in fs}) == 3:
                site = "FactorSet"
                try:
                    s1_, s2_ = FactorSet(fs[0], fs[1]), FactorSet(fs[2])
                    pr = s1_.product(s2_, inplace=False)
                    members = list(pr.get_factors())
                    tot = factor_product(*members)
                    st.transitions += 1
                    _check(st, site + ".product", case(site + ".product"), tot, exp, lab)
                    mv = U[0]
                    mg = pr.marginalize([lab.name(mv)], inplace=False)
                    members = list(mg.get_factors())
                    tot2 = factor_product(*members) if len(members) > 1 else members[0]
                    # marginalising each member that contains mv separately is the documented set semantics
                    e3 = None
                    for r in rfs:
                        rr = r.marginalize({mv}) if mv in r.vars else r
                        if not rr.vars:
                            e3 = None
                            break
                        e3 = rr if e3 is None else e3.product(rr)
                    if e3 is not None and len(members) == 3:
                        _check(st, site + ".marginalize", case(site + ".marginalize"), tot2, e3, lab)
                except Exception as e:
                    st.evals += 1
                    st.violation(site, "exception", case(site, "exception"), repr(e), None)
