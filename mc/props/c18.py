"""C18: independence reasoning (I-equivalence, semi-graphoid closure, joint tables, I-maps)."""
from fractions import Fraction as F
from itertools import combinations, permutations, product

from mc.gen.dags import all_dags, iso_classes, subsets
from mc.gen.tables import bn_from_desc, family_descs
from mc.ref.graphs import G
from mc.ref.semigraphoid import all_statements, canon, closure
from mc.stats import Stats

EXPLORER = "E1"
RULE = ("E1: (a) every ordered pair of labelled DAGs on <=4 nodes for is_iequivalent vs (same skeleton and same "
        "v-structures with colliders), cross-checked with equality of the full d-separation relation for n<=3; "
        "(b) every set of assertions over a 3-variable universe (512) and all sets of size<=k over 4 variables for "
        "closure/entails/is_equivalent vs the least fixed point of the semi-graphoid axioms; (c) joint tables on 3 "
        "variables (fingerprint, product forms of every 3-node DAG, xor/context-specific; event sets of two variables with conditioning sets of size 0-2 on 4- and 5-variable tables): check_independence for every "
        "(x, y | Z-set) and value context, get_independencies, minimal_imap for every variable order, is_imap both ways. "
        "non-trivial = distinct cases whose reference answer is 'equivalent'/'independent' or closure adds statements")
BOUNDS = {"quick": "(a) n<=4: 543^2 pairs; (b) 3 vars: all 512 sets, 4 vars: sets of size<=2 (1540); (c) 3 variables cards (2,2,2),(2,3,2)",
          "thorough": "(a) adds every ordered pair of 5-node DAGs sharing a skeleton (1 223 521 pairs); (b) adds 4 vars size 3 (26235 sets); (c) event sets on all 302 classes of 5-node DAGs"}
EXHAUSTIVE = {"quick": True, "thorough": True}
ASSUMPTIONS = ["assertions are well-formed (pairwise disjoint, non-empty X and Y)", "contexts have positive probability",
               "numeric independence uses the library's documented allclose tolerance; tables keep dependencies >= 1e-3"]

NAMES = ["A", "B", "C", "D"]


def groups(tier, seed):
    out = []
    for n in (1, 2, 3):
        out.append({"part": "ieq", "n": n, "lo": 0, "hi": len(all_dags(n))})
    for i in range(0, 543, 8):
        out.append({"part": "ieq", "n": 4, "lo": i, "hi": min(i + 8, 543)})
    if tier == "thorough":
        # five nodes: every ordered pair of DAGs that share their skeleton (1 223 521 pairs; other pairs differ already in the skeleton)
        for i in range(0, 1024, 16):
            out.append({"part": "ieq5", "lo": i, "hi": i + 16})
    for i in range(0, 512, 16):
        out.append({"part": "clo3", "lo": i, "hi": i + 16})
    sts = all_statements("ABCD")
    sets = [(i,) for i in range(len(sts))] + list(combinations(range(len(sts)), 2))
    if tier == "thorough":
        sets += list(combinations(range(len(sts)), 3))
    for i in range(0, len(sets), 40):
        out.append({"part": "clo4", "sets": [list(s) for s in sets[i:i + 40]]})
    d3 = all_dags(3)
    for cv in ((2, 2, 2), (2, 3, 2)):
        for d in family_descs(3, d3, [cv], fams=((1, 2, 1), (0, 0, 0)), fps=(0,)):
            out.append({"part": "jpd", "bn": d})
    for kind in ("xor", "ctx", "pairdep", "xor3"):
        out.append({"part": "jpd", "special": kind})
    # event SETS (two variables on one side) with conditioning sets of size 0-2 need four / five variables
    for d in family_descs(4, iso_classes(4), [(2, 3, 2, 2)], fams=((1, 2, 1),), fps=(0,)):
        out.append({"part": "jpdsets", "bn": d})
    c5 = iso_classes(5)
    for e in (c5 if tier == "thorough" else c5[seed % 6::6]):
        for d in family_descs(5, [e], [(2, 2, 3, 2, 2)], fams=((1, 2, 1),), fps=()):
            out.append({"part": "jpdsets", "bn": d})
    return out


_cache = {}


def _pg(n):
    from pgmpy.base import DAG

    if n not in _cache:
        lst = []
        for e in all_dags(n):
            d = DAG()
            d.add_nodes_from(NAMES[:n])
            d.add_edges_from([(NAMES[a], NAMES[b]) for a, b in e])
            lst.append((e, d, G(n, e)))
        _cache[n] = lst
    return _cache[n]


def run_group(g, tier):
    st = Stats()
    if g["part"] == "ieq":
        lst = _pg(g["n"])
        for i in range(g["lo"], g["hi"]):
            for j in range(len(lst)):
                _ieq(st, g["n"], i, j)
    elif g["part"] == "ieq5":
        _ieq5(st, g["lo"], g["hi"])
    elif g["part"] == "clo3":
        sts = all_statements("ABC")
        for mask in range(g["lo"], g["hi"]):
            _clo(st, "ABC", [k for k in range(9) if mask >> k & 1], sts)
    elif g["part"] == "clo4":
        sts = all_statements("ABCD")
        for s in g["sets"]:
            _clo(st, "ABCD", s, sts)
    elif g["part"] == "jpdsets":
        _jpdsets(st, g)
    else:
        _jpd(st, g)
    return st


def replay(case):
    st = Stats()
    p = case["part"]
    if p == "ieq":
        _ieq(st, case["n"], case["i"], case["j"])
    elif p == "ieq5":
        _ieq5(st, case["skeleton"], case["skeleton"] + 1, only=(case["i"], case["j"]))
    elif p in ("clo3", "clo4"):
        u = "ABC" if p == "clo3" else "ABCD"
        _clo(st, u, case["set"], all_statements(u))
    elif p == "jpdsets":
        _jpdsets(st, case["g"])
        st.violations = [v for v in st.violations if v["site"] == case.get("site") and v["case"].get("E1") == case.get("E1") and v["case"].get("E2") == case.get("E2")
                         and v["case"].get("Z") == case.get("Z")]
    else:
        _jpd(st, case["g"])
        st.violations = [v for v in st.violations if v["site"] == case.get("site")]
    return st.violations[:5]


_SK5 = []


def _ieq5(st, lo, hi, only=None):
    from pgmpy.base import DAG

    if not _SK5:
        by = {}
        for e in all_dags(5):
            by.setdefault(frozenset(frozenset(x) for x in e), []).append(e)
        _SK5.extend(sorted(by.values(), key=lambda v: (len(v), v)))
    for si in range(lo, min(hi, len(_SK5))):
        members = _SK5[si]
        objs = []
        for e in members:
            d = DAG()
            d.add_nodes_from(range(5))
            d.add_edges_from(e)
            objs.append((d, G(5, e).vstructs()))
        st.states += 1
        for i in range(len(objs)):
            for j in range(len(objs)):
                if only is not None and only != (i, j):
                    continue
                st.evals += 1
                st.transitions += 1
                exp = objs[i][1] == objs[j][1]
                case = {"part": "ieq5", "skeleton": si, "i": i, "j": j, "e1": [list(x) for x in members[i]], "e2": [list(x) for x in members[j]]}
                try:
                    got = objs[i][0].is_iequivalent(objs[j][0])
                except Exception as ex:
                    st.violation("is_iequivalent", "exception", case, repr(ex)[:200])
                    continue
                st.compared += 1
                if exp and i != j:
                    st.nt((si, i, j))
                if bool(got) != exp:
                    st.violation("is_iequivalent", "wrong-verdict", case, bool(got), exp)
                st.outcome(int(exp))


def _ieq(st, n, i, j):
    lst = _pg(n)
    (e1, d1, r1), (e2, d2, r2) = lst[i], lst[j]
    exp = r1.skeleton() == r2.skeleton() and r1.vstructs() == r2.vstructs()
    case = {"part": "ieq", "n": n, "i": i, "j": j, "e1": [list(x) for x in e1], "e2": [list(x) for x in e2]}
    st.states += 1
    if n <= 3:
        # cross-check the oracle itself with the full d-separation relation
        same = True
        for x, y in combinations(range(n), 2):
            for Z in subsets([v for v in range(n) if v not in (x, y)]):
                if r1.dconnected(x, y, set(Z)) != r2.dconnected(x, y, set(Z)):
                    same = False
        assert same == exp, ("oracle inconsistency", e1, e2)
    if exp:
        st.nt((i, j))
    st.evals += 1
    st.transitions += 1
    try:
        got = d1.is_iequivalent(d2)
    except Exception as ex:
        st.violation("is_iequivalent", "exception", case, repr(ex)[:200])
        return
    st.compared += 1
    if bool(got) != exp:
        st.violation("is_iequivalent", "wrong-verdict", case, bool(got), exp)
    st.outcome(int(exp))
    if i == 3 and j == 5:
        st.sample(case)


def _mk_ind(stmts):
    from pgmpy.independencies import Independencies

    ind = Independencies()
    for c in stmts:
        (pair, Z) = c
        X, Y = tuple(pair)
        ind.add_assertions([sorted(X), sorted(Y), sorted(Z)])
    return ind


def _to_canon(ind):
    return {canon(a.event1, a.event2, a.event3) for a in ind.get_assertions()}


def _clo(st, universe, idxs, sts):
    chosen = [sts[k] for k in idxs]
    case = {"part": "clo3" if universe == "ABC" else "clo4", "set": list(idxs), "stmts": [str(_fmt(c)) for c in chosen]}
    exp = closure([(tuple(c[0])[0], tuple(c[0])[1], c[1]) for c in chosen])
    st.states += 1
    if len(exp) > len(set(chosen)):
        st.nt(tuple(idxs))
    st.evals += 1
    st.transitions += 1
    try:
        ind = _mk_ind(chosen)
        got = _to_canon(ind.closure())
    except Exception as ex:
        st.violation("closure", "exception", case, repr(ex)[:200])
        return
    st.compared += 1
    f05 = None
    if got != exp:
        f05 = closure([(tuple(c[0])[0], tuple(c[0])[1], c[1]) for c in chosen], rule="f05")
        st.violation("closure", "wrong-closure", case,
                     sorted(_fmt(c) for c in got - exp), sorted(_fmt(c) for c in exp - got),
                     detail={"f05_model_match": got == f05})
    st.outcome(len(exp))
    if len(idxs) == 2 and len(st.samples) < 1:
        st.sample(case)
    # entails / is_equivalent against the reference closure
    probes = sts if universe == "ABC" else [sts[k] for k in range(0, len(sts), 6)]
    for t in probes:
        st.evals += 1
        try:
            got_e = ind.entails(_mk_ind([t]))
        except Exception as ex:
            st.violation("entails", "exception", case, repr(ex)[:200])
            break
        st.compared += 1
        if bool(got_e) != (t in exp):
            if f05 is None:
                f05 = closure([(tuple(c[0])[0], tuple(c[0])[1], c[1]) for c in chosen], rule="f05")
            st.violation("entails", "wrong-verdict", dict(case, probe=_fmt(t)), bool(got_e), t in exp,
                         detail={"f05_model_match": bool(got_e) == (t in f05)})
    if universe == "ABC" and chosen:
        # equivalence with (i) its own closure (ii) the set minus its last statement
        for other, name in ((sorted(exp, key=repr), "closure"), (chosen[:-1], "minus-last")):
            if not other:
                continue
            exp_eq = closure([(tuple(c[0])[0], tuple(c[0])[1], c[1]) for c in other]) == exp
            st.evals += 1
            try:
                got_eq = ind.is_equivalent(_mk_ind(other))
            except Exception as ex:
                st.violation("is_equivalent", "exception", case, repr(ex)[:200])
                continue
            st.compared += 1
            if bool(got_eq) != exp_eq:
                fa = closure([(tuple(c[0])[0], tuple(c[0])[1], c[1]) for c in chosen], rule="f05")
                fb = closure([(tuple(c[0])[0], tuple(c[0])[1], c[1]) for c in other], rule="f05")
                model = set(other) <= fa and set(chosen) <= fb
                st.violation("is_equivalent", "wrong-verdict", dict(case, other=name), bool(got_eq), exp_eq,
                             detail={"f05_model_match": bool(got_eq) == model})


def _fmt(c):
    (pair, Z) = c
    X, Y = sorted(map(sorted, pair))
    return f"{','.join(X)} _|_ {','.join(Y)} | {','.join(sorted(Z))}"


# ---------------------------------------------------------------- joint tables
def _special(kind):
    """returns (cards, table dict over (a,b,c))"""
    t = {}
    if kind in ("xor", "xor3"):
        for a, b, c in product(range(2), repeat=3):
            t[(a, b, c)] = F(1, 4) if c == (a ^ b) else F(0)
        return (2, 2, 2), t
    if kind == "pairdep":
        # A and B dependent, C independent coin
        pab = {(0, 0): F(3, 8), (0, 1): F(1, 8), (1, 0): F(1, 8), (1, 1): F(3, 8)}
        for a, b, c in product(range(2), repeat=3):
            t[(a, b, c)] = pab[(a, b)] * F(1, 2)
        return (2, 2, 2), t
    # context specific: A _|_ B | C=0 but not | C=1
    for a, b, c in product(range(2), repeat=3):
        if c == 0:
            t[(a, b, c)] = F(1, 2) * F(1, 4)
        else:
            t[(a, b, c)] = F(1, 2) * (F(3, 8) if a == b else F(1, 8))
    return (2, 2, 2), t


def _indep(t, cards, x, y, Z, ctx=None):
    """exact: x _|_ y | Z (variable set) or | context dict"""
    n = len(cards)

    def marg(vs, fix=None):
        out = {}
        for k, p in t.items():
            if fix and any(k[v] != s for v, s in fix.items()):
                continue
            kk = tuple(k[v] for v in vs)
            out[kk] = out.get(kk, F(0)) + p
        return out
    if ctx is not None:
        pz = marg([], ctx)[()]
        pxy, px, py = marg([x, y], ctx), marg([x], ctx), marg([y], ctx)
        return all(pxy[(a, b)] * pz == px[(a,)] * py[(b,)] for a in range(cards[x]) for b in range(cards[y]))
    Z = list(Z)
    pxyz, pxz, pyz, pz = marg([x, y] + Z), marg([x] + Z), marg([y] + Z), marg(Z)
    for k, p in pxyz.items():
        a, b, z = k[0], k[1], k[2:]
        if p * pz[z] != pxz[(a,) + z] * pyz[(b,) + z]:
            return False
    return True


def _indep_sets(t, n, X, Y, Z):
    """exact JOINT independence of the variable sets X and Y given Z: P(X,Y,Z) P(Z) == P(X,Z) P(Y,Z) everywhere"""
    def marg(vs):
        out = {}
        for k, p in t.items():
            kk = tuple(k[v] for v in vs)
            out[kk] = out.get(kk, 0) + p
        return out
    X, Y, Z = list(X), list(Y), list(Z)
    pxyz, pxz, pyz, pz = marg(X + Y + Z), marg(X + Z), marg(Y + Z), marg(Z)
    for k, p in pxyz.items():
        a, b, z = k[:len(X)], k[len(X):len(X) + len(Y)], k[len(X) + len(Y):]
        if p * pz[z] != pxz[a + z] * pyz[b + z]:
            return False
    return True


def _jpdsets(st, g):
    """check_independence on event SETS: whatever reading of a set statement the library implements (pairwise or joint),
    True requires every cross pair to be independent given Z, and False requires the sets not to be jointly independent"""
    from pgmpy.factors.discrete import JointProbabilityDistribution as JPD

    ref = bn_from_desc(g["bn"])
    n = ref.n
    cards = tuple(ref.card[v] for v in range(n))
    t = ref.joint().table
    names = NAMES[:n] if len(NAMES) >= n else list("ABCDE")[:n]
    vals = [float(t[k]) for k in product(*[range(c) for c in cards])]
    jpd = JPD(list(names), list(cards), vals)
    st.states += 1
    for E1 in subsets(range(n), 2):
        if not E1:
            continue
        rest1 = [v for v in range(n) if v not in E1]
        for E2 in subsets(rest1, 2):
            if not E2 or len(E1) + len(E2) < 3:
                continue
            rest2 = [v for v in rest1 if v not in E2]
            for Z in subsets(rest2, 2):
                pair_ok = all(_indep_sets(t, n, [x], [y], Z) for x in E1 for y in E2)
                joint_ok = _indep_sets(t, n, E1, E2, Z)
                c = {"part": "jpdsets", "g": g, "site": "check_independence(sets)", "E1": list(E1), "E2": list(E2), "Z": list(Z)}
                st.evals += 1
                st.transitions += 1
                if pair_ok:
                    st.nt((E1, E2, Z))
                try:
                    got = bool(jpd.check_independence([names[v] for v in E1], [names[v] for v in E2], [names[v] for v in Z] if Z else None,
                                                      condition_random_variable=bool(Z)))
                except Exception as ex:
                    st.violation("check_independence(sets)", "exception", c, repr(ex)[:200])
                    continue
                st.compared += 1
                if got and not pair_ok:
                    st.violation("check_independence(sets)", "wrong-verdict", c, True, "some cross pair is dependent given Z")
                elif not got and joint_ok:
                    st.violation("check_independence(sets)", "wrong-verdict", c, False, "the sets are jointly independent given Z")
                st.outcome((got, pair_ok, joint_ok))


def _jpd(st, g):
    from pgmpy.factors.discrete import JointProbabilityDistribution as JPD

    if "special" in g:
        cards, t = _special(g["special"])
        ref = None
    else:
        ref = bn_from_desc(g["bn"])
        cards = tuple(ref.card[v] for v in range(3))
        t = ref.joint().table
    n = 3
    names = NAMES[:n]
    st.states += 1

    def mk(order):
        vals = []
        # left-most variable cycles slowest in DiscreteFactor's C-order layout
        for k in product(*[range(cards[v]) for v in order]):
            a = [0] * n
            for v, s in zip(order, k):
                a[v] = s
            vals.append(float(t[tuple(a)]))
        return JPD([names[v] for v in order], [cards[v] for v in order], vals)

    for order in permutations(range(n)):
        base = {"part": "jpd", "g": g, "order": list(order)}
        try:
            jpd = mk(order)
        except Exception as ex:
            st.violation("JPD", "exception", dict(base, site="JPD"), repr(ex)[:200])
            continue
        for x, y in permutations(range(n), 2):
            rest = [v for v in range(n) if v not in (x, y)]
            for Z in subsets(rest):
                exp = _indep(t, cards, x, y, Z)
                if exp:
                    st.nt((x, y, Z))
                st.evals += 1
                st.transitions += 1
                c = dict(base, site="check_independence", x=x, y=y, Z=list(Z))
                try:
                    got = jpd.check_independence([names[x]], [names[y]], [names[v] for v in Z] if Z else None, condition_random_variable=bool(Z))
                except Exception as ex:
                    st.violation("check_independence", "exception", c, repr(ex)[:200])
                    continue
                st.compared += 1
                if bool(got) != exp:
                    st.violation("check_independence", "wrong-verdict", c, bool(got), exp)
                st.outcome(int(exp))
            # value contexts
            for z in rest:
                for s in range(cards[z]):
                    pz = sum(p for k, p in t.items() if k[z] == s)
                    if pz == 0:
                        continue
                    exp = _indep(t, cards, x, y, None, {z: s})
                    st.evals += 1
                    st.transitions += 1
                    c = dict(base, site="check_independence(context)", x=x, y=y, ctx=[z, s])
                    try:
                        got = jpd.check_independence([names[x]], [names[y]], [(names[z], s)])
                    except Exception as ex:
                        st.violation("check_independence(context)", "exception", c, repr(ex)[:200])
                        continue
                    st.compared += 1
                    if bool(got) != exp:
                        st.violation("check_independence(context)", "wrong-verdict", c, bool(got), exp)
        # get_independencies (marginal pairs)
        st.evals += 1
        c = dict(base, site="get_independencies")
        try:
            got = {frozenset((tuple(a.event1)[0], tuple(a.event2)[0])) for a in jpd.get_independencies().get_assertions()}
            exp = {frozenset((names[x], names[y])) for x, y in combinations(range(n), 2) if _indep(t, cards, x, y, ())}
            st.compared += 1
            if got != exp:
                st.violation("get_independencies", "wrong-set", c, sorted(map(sorted, got)), sorted(map(sorted, exp)))
        except Exception as ex:
            st.violation("get_independencies", "exception", c, repr(ex)[:200])
        # minimal I-map along this order: every d-separation of the result must hold in the table
        st.evals += 1
        st.transitions += 1
        c = dict(base, site="minimal_imap")
        try:
            im = jpd.minimal_imap([names[v] for v in order])
            edges = [(names.index(a), names.index(b)) for a, b in im.edges()]
        except Exception as ex:
            st.violation("minimal_imap", "exception", c, repr(ex)[:200])
            continue
        rg = G(n, edges)
        bad = None
        for x, y in combinations(range(n), 2):
            for Z in subsets([v for v in range(n) if v not in (x, y)]):
                st.compared += 1
                if not rg.dconnected(x, y, set(Z)) and not _indep(t, cards, x, y, Z):
                    bad = bad or f"graph says {names[x]} _|_ {names[y]} | {[names[z] for z in Z]} but the table disagrees"
        # joint (set-valued) independencies: the factorisation along the graph must reproduce the table
        if bad is None and not _factorises(t, cards, rg):
            bad = "table does not factorise along the returned graph"
        if bad:
            # model of the recorded defect F18 (KNOWN_FINDINGS.json): union of all *proper* predecessor subsets S
            # with pairwise independence of the variable from each remaining predecessor given S; never all of u
            model = set()
            for i, v in enumerate(order):
                u = list(order[:i])
                for S in subsets(u):
                    if len(S) < len(u) and all(_indep(t, cards, v, r, S) for r in u if r not in S):
                        model |= {(p_, v) for p_ in S}
            st.violation("minimal_imap", "not-an-imap", c, sorted(map(list, edges)), bad,
                         detail={"f18_model_edges": sorted(map(list, model))})
    # is_imap both ways on the generating network
    if ref is not None:
        from mc.build import Labeling, make_bn

        lab = Labeling(3, ref.card, "str", None, "def")
        model = make_bn(ref, lab)
        for order in permutations(range(n)):
            jpd = mk(order)
            for site, fn in (("JPD.is_imap", lambda: jpd.is_imap(model)), ("BN.is_imap", lambda: model.is_imap(jpd))):
                st.evals += 1
                c = {"part": "jpd", "g": g, "order": list(order), "site": site}
                try:
                    got = fn()
                    st.compared += 1
                    if not got:
                        st.violation(site, "wrong-verdict", c, False, True)
                except Exception as ex:
                    st.violation(site, "exception", c, repr(ex)[:200])
        # a different network (reverse column choice) must not be reported as I-map when the joint differs
        d2 = dict(g["bn"])
        d2["cols"] = {"fp": 3}
        ref2 = bn_from_desc(d2)
        if ref2.joint().table != ref.joint().table:
            m2 = make_bn(ref2, lab)
            st.evals += 1
            c = {"part": "jpd", "g": g, "site": "JPD.is_imap(neg)"}
            try:
                st.compared += 1
                if mk((0, 1, 2)).is_imap(m2):
                    st.violation("JPD.is_imap(neg)", "wrong-verdict", c, True, False)
            except Exception as ex:
                st.violation("JPD.is_imap(neg)", "exception", c, repr(ex)[:200])


def _factorises(t, cards, rg):
    n = len(cards)

    def marg(vs):
        out = {}
        for k, p in t.items():
            kk = tuple(k[v] for v in vs)
            out[kk] = out.get(kk, F(0)) + p
        return out
    for k, p in t.items():
        w = F(1)
        for v in range(n):
            pa = sorted(rg.pa[v])
            den = marg(pa)[tuple(k[x] for x in pa)]
            num = marg([v] + pa)[tuple(k[x] for x in [v] + pa)]
            if den == 0:
                w = F(0)
                break
            w *= num / den
        if w != p:
            return False
    return True
