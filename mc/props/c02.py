"""C02: junction-tree belief propagation is exact and calibrated (E1)."""
from fractions import Fraction as F
from itertools import combinations, permutations, product

import numpy as np

from mc.build import Labeling, cmp_named, make_bn, named_table, ref_named, tbl_json
from mc.gen.dags import all_dags, all_ugraphs, is_connected, iso_classes, subsets
from mc.gen.tables import bn_from_desc, core_descs, family_descs
from mc.markov import LAYOUTS_X as LAYOUTS, joint_of, make_factor, make_fg, make_mn, max_cliques, ref_mn
from mc.ref.discrete import RefFactor, posterior
from mc.ref.graphs import G
from mc.stats import Stats

EXPLORER = "E1"
RULE = ("E1: four model kinds, connected only: (a) BNs with connected moral graph, (b) Markov networks on every connected "
        "labelled graph x factor layouts {edge, edge+unary, duplicated equal factors, maximal cliques} x forced triangulation "
        "heuristic {default, H1..H6}, (c) hand-built factor graphs, (d) hand-built junction trees (every clique tree with "
        "running intersection over the maximal cliques of every chordal connected graph).  For each: calibrate() and "
        "max_calibrate() beliefs vs sum-/max-marginals of the reference joint, sepset agreement, and every query "
        "(query sets of size<=2 x evidence sets with named states x joint in {T,F}) vs the reference conditional. "
        "non-trivial = distinct (model, query, evidence) whose query variables are not inside a single clique or whose "
        "evidence variable sits in >=2 cliques")
BOUNDS = {"quick": "BN: iso classes n<=3 x 2-element alphabet core + card/style/relabeling families + iso classes n=4; MN: all connected graphs "
                   "n<=4 x 4 layouts (H1-H6 forced on non-chordal graphs and on n<=3), all 728 connected graphs n=5 with the edge layout and "
                   "single-variable evidence; every unlabelled tree on 6 and 7 nodes (17) as a pairwise network, queries of 1 and 3 variables; FG n<=4; JT: all RIP clique trees n<=4",
          "thorough": "BN: all DAGs n<=4; MN n=4 with 2 cardinality vectors and H1-H6 everywhere; |E|<=2 everywhere; trees on 8 nodes, 2 labelings each"}
EXHAUSTIVE = {"quick": True, "thorough": True}
ASSUMPTIONS = ["models are connected (the library rejects disconnected clique trees by design)", "P(evidence)>0 decided by the reference",
               "all-zero beliefs are a violation; proportionality is checked after normalising both sides"]

HEUR = ["H1", "H2", "H3", "H4", "H5", "H6"]


def _moral_connected(n, edges):
    return is_connected(n, [tuple(e) for e in G(n, edges).moral_edges()])


def groups(tier, seed):
    out = []
    full = tier == "thorough"
    for n in (1, 2, 3):
        dags = [e for e in (all_dags(n) if full else iso_classes(n)) if _moral_connected(n, e)]
        for d in core_descs(n, dags, 2):
            out.append({"kind": "bn", "bn": d, "lab": ["str", None, "def"], "emax": 2})
    d3 = [e for e in iso_classes(3) if _moral_connected(3, e)]
    perms = list(permutations(range(3)))
    labs = [("int", list(p), "def") for p in perms] + [("str", list(p), "def") for p in perms[1:]] + \
           [("str", None, s) for s in ("str", "rot", "shift", "tuple", "mixed")] + [("multi", None, "str")]
    for d in family_descs(3, d3, [(2, 3, 2)], fams=((1, 2, 1),), fps=(0,)):
        for lab in labs:
            out.append({"kind": "bn", "bn": d, "lab": list(lab), "emax": 2})
    d4 = [e for e in (all_dags(4) if full else iso_classes(4)) if _moral_connected(4, e)]
    for d in family_descs(4, d4, [(2, 2, 2, 2)], fams=((1, 2, 1),), fps=(0,) if not full else (0, 1)):
        out.append({"kind": "bn", "bn": d, "lab": ["str", None, "str"], "emax": 2 if full else 1})
    for n in (2, 3, 4):
        for e in all_ugraphs(n):
            chordal = n < 4 or len(e) != 4 or any(sum(1 for x in e if v in x) != 2 for v in range(4))
            for lay in LAYOUTS:
                cvs = [(2,) * n, (2, 3, 2, 3)[:n]] if (n < 4 or full) else [(2, 3, 2, 2)]
                for cv in cvs:
                    heurs = [None] + (HEUR if (n <= 3 or not chordal or full) else [])
                    for h in heurs:
                        out.append({"kind": "mn", "n": n, "edges": [list(x) for x in e], "card": list(cv), "layout": lay, "heur": h,
                                    "lab": ["str", None, "str"], "emax": 2 if (n <= 3 or full) else 1})
            out.append({"kind": "fg", "n": n, "edges": [list(x) for x in e], "card": [2] * n, "layout": "edge+unary", "lab": ["str", None, "str"], "emax": 1})
            out.append({"kind": "jt", "n": n, "edges": [list(x) for x in e], "card": [2, 3, 2, 2][:n], "lab": ["str", None, "str"], "emax": 1})
    g5 = all_ugraphs(5)
    for i in range(0, len(g5), 8):
        out.append({"kind": "mn5", "lo": i, "hi": min(i + 8, len(g5))})
    # long and branching clique trees: every unlabelled tree on 6 and 7 nodes (thorough: 8) as a pairwise Markov network
    # (its clique tree has n-1 cliques; spiders give query subtrees in which a clique has several children with descendants)
    import networkx as nx

    for n in (6, 7, 8) if full else (6, 7):
        for ti, t in enumerate(nx.nonisomorphic_trees(n)):
            rel = list(range(n))
            for r in range(2 if full else 1):
                k = (seed + ti + r * 3) % n
                perm = rel[k:] + rel[:k]
                e = sorted(tuple(sorted((perm[a], perm[b]))) for a, b in t.edges())
                out.append({"kind": "mn", "n": n, "edges": [list(x) for x in e], "card": [2] * n, "layout": "edge", "heur": None,
                            "lab": ["str", None, "str"], "emax": 1, "tree": True})
    return out


_g5 = []


def run_group(g, tier):
    st = Stats()
    if g["kind"] == "mn5":
        if not _g5:
            _g5.extend(all_ugraphs(5))
        for i in range(g["lo"], g["hi"]):
            _run(st, {"kind": "mn", "n": 5, "edges": [list(x) for x in _g5[i]], "card": [2] * 5, "layout": "edge", "heur": None,
                      "lab": ["str", None, "str"], "emax": 1, "single": True})
    else:
        _run(st, g)
    return st


def replay(case):
    st = Stats()
    _run(st, case["g"], only=case.get("key"))
    return st.violations[:5]


def _build(g):
    """returns (model, lab, n, card, joint RefFactor, facs or None)"""
    if g["kind"] == "bn":
        ref = bn_from_desc(g["bn"])
        lab = Labeling(ref.n, ref.card, *g["lab"])
        return make_bn(ref, lab), lab, ref.n, ref.card, ref.joint(), None
    n, edges = g["n"], [tuple(e) for e in g["edges"]]
    if g["kind"] == "jt":
        return _build_jt(g)
    card, facs = ref_mn(n, edges, g["card"], g["layout"])
    lab = Labeling(n, card, *g["lab"])
    joint = joint_of(n, card, facs)
    if g["kind"] == "mn":
        m = make_mn(n, edges, facs, lab)
        if g.get("heur"):
            m.triangulate(heuristic=g["heur"], inplace=True)
        return m, lab, n, card, joint, facs
    return make_fg(n, facs, lab), lab, n, card, joint, facs


def _rip_trees(cliques):
    """all spanning trees over the cliques with non-empty sepsets and the running-intersection property"""
    import networkx as nx

    k = len(cliques)
    if k == 1:
        return [[]]
    pairs = [(i, j) for i, j in combinations(range(k), 2) if set(cliques[i]) & set(cliques[j])]
    out = []
    for es in combinations(pairs, k - 1):
        t = nx.Graph()
        t.add_nodes_from(range(k))
        t.add_edges_from(es)
        if not nx.is_connected(t):
            continue
        ok = True
        for v in set().union(*map(set, cliques)):
            if not nx.is_connected(t.subgraph([i for i in range(k) if v in cliques[i]])):
                ok = False
        if ok:
            out.append(list(es))
    return out


def _build_jt(g):
    from pgmpy.models import JunctionTree

    n, edges = g["n"], [tuple(e) for e in g["edges"]]
    card, facs = ref_mn(n, edges, g["card"], "edge+unary")
    lab = Labeling(n, card, *g["lab"])
    joint = joint_of(n, card, facs)
    cl = max_cliques(n, edges)
    trees = _rip_trees(cl)
    if not trees:
        return None, lab, n, card, joint, facs  # not chordal: no junction tree over the maximal cliques
    tree = trees[g.get("tree", 0) % len(trees)]
    jt = JunctionTree()
    for c in cl:
        jt.add_node(tuple(lab.name(v) for v in c))
    for i, j in tree:
        jt.add_edge(tuple(lab.name(v) for v in cl[i]), tuple(lab.name(v) for v in cl[j]))
    pots = {c: RefFactor(c, card, {k: F(1) for k in product(*[range(card[v]) for v in c])}) for c in cl}
    for f in facs:
        for c in cl:
            if set(f.vars) <= set(c):
                pots[c] = pots[c].product(f).reorder(c)
                break
    jt.add_factors(*[make_factor(pots[c], lab) for c in cl])
    return jt, lab, n, card, joint, facs, len(trees)


def _prop(phi, rf, lab):
    """phi (pgmpy) proportional to rf (RefFactor)? compare after normalising both"""
    z = rf.total()
    tot = float(np.sum(np.asarray(phi.values, dtype=float)))
    if z == 0 or not tot > 0:
        return "belief is all zero / reference mass is zero"
    return cmp_named(named_table(phi.normalize(inplace=False)), ref_named(rf.normalize(), lab))


def _run(st, g, only=None):
    from pgmpy.inference import BeliefPropagation, VariableElimination

    built = _build(g)
    ntrees = built[6] if len(built) > 6 else 1
    for ti in range(ntrees):
        if g["kind"] == "jt" and ti > 0:
            built = _build(dict(g, tree=ti))
        model, lab, n, card, joint, facs = built[:6]
        if model is None:
            st.bump("jt-skipped-nonchordal")
            return
        gg = dict(g, tree=ti) if g["kind"] == "jt" else g
        _one_model(st, gg, model, lab, n, card, joint, only)


def _one_model(st, g, model, lab, n, card, joint, only):
    from pgmpy.inference import BeliefPropagation

    st.states += 1
    site0 = {"bn": "BP(BayesianNetwork)", "mn": "BP(MarkovNetwork)", "fg": "BP(FactorGraph)", "jt": "BP(JunctionTree)"}[g["kind"]]

    def case(key):
        return {"g": g, "key": key}
    # ---- calibration
    for op, refop in (("calibrate", "sum"), ("max_calibrate", "max")):
        key = [op]
        if only is not None and only != key:
            continue
        st.evals += 1
        st.transitions += 1
        try:
            bp = BeliefPropagation(model)
            getattr(bp, op)()
            cb, sb = bp.get_clique_beliefs(), bp.get_sepset_beliefs()
        except Exception as ex:
            st.violation(site0 + "." + op, "exception", case(key), repr(ex)[:300])
            continue
        bad = None
        for clique, phi in cb.items():
            ids = [lab.id[v] for v in clique]
            m = joint.marginalize([v for v in range(n) if v not in ids], refop)
            st.compared += 1
            d = _prop(phi, m, lab)
            if d:
                bad = f"clique {list(map(str, clique))}: {d}"
                break
        if bad is None:
            for edge, phi in sb.items():
                a, b = tuple(edge)
                ids = [lab.id[v] for v in set(a) & set(b)]
                m = joint.marginalize([v for v in range(n) if v not in ids], refop)
                st.compared += 1
                d = _prop(phi, m, lab) if phi is not None else "sepset belief missing"
                if d:
                    bad = f"sepset {sorted(map(str, set(a) & set(b)))}: {d}"
                    break
                # adjacent cliques agree on the sepset (same scale, not only proportional)
                ma = getattr(cb[a], "marginalize" if refop == "sum" else "maximize")(list(set(a) - set(b)), inplace=False)
                mb = getattr(cb[b], "marginalize" if refop == "sum" else "maximize")(list(set(b) - set(a)), inplace=False)
                if cmp_named(named_table(ma), named_table(mb), 1e-9 * max(1.0, float(np.max(ma.values)))):
                    bad = f"neighbours disagree on sepset {sorted(map(str, set(a) & set(b)))}"
                    break
        if bad:
            st.violation(site0 + "." + op, "not-calibrated", case(key), None, bad)
        else:
            st.outcome((op, len(cb)))
        # a posterior query on the SAME engine right after (max-)calibration must still be the sum-marginal
        for qv in range(min(n, 2)):
            st.evals += 1
            try:
                res = bp.query([lab.name(qv)], show_progress=False)
                post, _ = posterior(joint, [qv], {})
                st.compared += 1
                d = cmp_named(named_table(res), ref_named(post, lab))
                if d:
                    st.violation(site0 + ".query-after-" + op, "wrong-posterior", case(key), None, d)
            except Exception as ex:
                st.violation(site0 + ".query-after-" + op, "exception", case(key), repr(ex)[:200])
            bp = BeliefPropagation(model)
            getattr(bp, op)()
    # ---- queries
    try:
        cliques = [set(lab.id[v] for v in c) for c in BeliefPropagation(model).get_cliques()]
    except Exception:
        cliques = []
    first = True
    for q in subsets(range(n), 1 if g.get("single") else 3 if g.get("tree") else 2):
        if not q or (g.get("tree") and len(q) == 2):
            continue
        rest = [v for v in range(n) if v not in q]
        for e in subsets(rest, g["emax"]):
            for states in product(*[range(card[v]) for v in e]):
                if g.get("single") and (not e or states[0] != 1):
                    continue
                if g.get("tree") and any(x != 1 for x in states):
                    continue
                evd = dict(zip(e, states))
                post, pe = posterior(joint, list(q), evd)
                if post is None:
                    continue
                multi = not any(set(q) <= c for c in cliques) or any(sum(1 for c in cliques if v in c) >= 2 for v in e)
                if multi:
                    st.nt((q, e, states))
                for jt_ in ((True,) if g.get("tree") else (True, False) if len(q) > 1 or not g.get("single") else (True,)):
                    key = ["query", list(q), [list(x) for x in evd.items()], jt_]
                    if only is not None and only != key:
                        continue
                    st.evals += 1
                    st.transitions += 1
                    site = site0 + ".query"
                    try:
                        res = BeliefPropagation(model).query([lab.name(v) for v in q], evidence=lab.ev(evd) or None, joint=jt_, show_progress=False)
                    except Exception as ex:
                        st.violation(site, "exception", case(key), repr(ex)[:300])
                        continue
                    st.compared += 1
                    from mc.props.c01 import check_answer

                    d, obs = check_answer(res, post, list(q), lab, jt_)
                    if d:
                        st.violation(site, "wrong-posterior", case(key), obs, d)
                    else:
                        st.outcome(tuple(sorted(post.table.values())))
                    if first:
                        st.sample({"g": g, "q": q, "e": evd})
                        first = False
    # ---- virtual evidence (alone and together with hard evidence): Bayesian networks with string names only
    if g["kind"] == "bn" and g["lab"][0] in ("str", "multi") and n >= 2:
        from fractions import Fraction as F

        from pgmpy.factors.discrete import TabularCPD

        liks = {1: (0.5,), 2: (1, 0.5), 3: (1, 3, 2), 4: (1, 0.5, 0.25, 0)}
        for q in range(n):
            for v in range(n):
                if v == q:
                    continue
                for hard in [None] + [h for h in range(n) if h not in (q, v)]:
                    for hs in ([None] if hard is None else range(card[hard])):
                        evd = {} if hard is None else {hard: hs}
                        lik = liks[card[v]]
                        post, pe = posterior(joint, [q], evd, [(v, [F(x) for x in lik])])
                        if post is None:
                            continue
                        key = ["virt", q, v, [list(x) for x in evd.items()]]
                        if only is not None and only != key:
                            continue
                        st.evals += 1
                        st.transitions += 1
                        st.nt(("virt", q, v, hard, hs))
                        site = site0 + ".query(virtual)"
                        try:
                            ve = [TabularCPD(lab.name(v), card[v], [[x] for x in lik], state_names={lab.name(v): list(lab.states[v])})]
                            res = BeliefPropagation(model).query([lab.name(q)], evidence=lab.ev(evd) or None, virtual_evidence=ve, show_progress=False)
                        except Exception as ex:
                            st.violation(site, "exception", case(key), repr(ex)[:300])
                            continue
                        st.compared += 1
                        d = cmp_named(named_table(res), ref_named(post, lab))
                        if d:
                            st.violation(site, "wrong-posterior", case(key), None, d)
