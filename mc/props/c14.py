"""C14: model conversions preserve the distribution and produce valid targets (E1)."""
from fractions import Fraction as F
from itertools import combinations, permutations, product

import numpy as np

from mc.build import Labeling, cmp_named, make_bn, named_table, ref_named
from mc.gen.dags import all_dags, all_ugraphs, is_connected, iso_classes, subsets
from mc.gen.tables import bn_from_desc
from mc.markov import LAYOUTS_X as LAYOUTS, joint_of, make_fg, make_mn, ref_mn
from mc.ref.discrete import RefFactor
from mc.ref.graphs import G
from mc.stats import Stats

EXPLORER = "E1"
RULE = ("E1: every labelled undirected graph up to the node bound (connected ones for clique-tree targets) x factor layouts "
        "{one per edge, edges+unary, duplicated equal factors, two different factors on one scope, one per maximal clique, a sparse clique cover that leaves maximal cliques without a factor} x cardinality vectors x name "
        "relabelings; every labelled DAG for BN sources. conversions BN->MN, MN->FG, FG->MN, {BN,MN,FG}->JT, "
        "triangulate (H1-H6, every explicit elimination order, in/out of place). oracle: pointwise product of all source "
        "factors == product of target potentials on every named assignment (so a factor used twice or never is caught), "
        "partition function, state names of every clique variable, target's own check_model, tree/RIP/coverage, own "
        "chordality test (no induced cycle of length>=4). non-trivial = distinct (graph, layout) with a duplicated factor, a "
        "fill-in edge, or >=2 cliques")
BOUNDS = {"quick": "undirected graphs n<=4 (64 labelled, 38 connected) x 6 layouts x 2 card vectors; BNs: all DAGs n<=4 (JT on connected moral graphs); "
                   "n=5: the 728 connected graphs, edge layout, to_junction_tree only",
          "thorough": "adds all 1024 labelled graphs on 5 nodes for triangulate/factor graph, 3 relabelings of every n=4 case, every conversion on the 728 connected "
                      "5-node graphs x the 4 other layouts, all 29281 labelled 5-node DAGs as BN sources, clique trees of all 26704 connected 6-node graphs, triangulate on all 32768 labelled 6-node graphs"}
EXHAUSTIVE = {"quick": True, "thorough": True}
ASSUMPTIONS = ["junction-tree targets need a connected graph (the library rejects others by design)", "string variable names"]

HEUR = ["H1", "H2", "H3", "H4", "H5", "H6"]


def groups(tier, seed):
    out = []
    for n in (1, 2, 3, 4):
        for e in all_ugraphs(n, connected=False):
            for lay in LAYOUTS:
                for cv in ((2,) * n, (2, 3, 2, 3)[:n]):
                    perms = [None]
                    if n == 3:
                        perms = [None, [1, 2, 0], [2, 0, 1]]
                    if n == 4 and tier == "thorough":
                        perms = [None, [3, 0, 1, 2], [1, 3, 2, 0]]
                    for p in perms:
                        out.append({"kind": "mn", "n": n, "edges": [list(x) for x in e], "card": list(cv), "layout": lay, "perm": p})
    for n in (1, 2, 3, 4):
        dags = all_dags(n)
        for i in range(0, len(dags), 10):
            out.append({"kind": "bn", "n": n, "lo": i, "hi": min(i + 10, len(dags))})
    g5 = all_ugraphs(5)
    for i in range(0, len(g5), 16):
        out.append({"kind": "mn5", "lo": i, "hi": min(i + 16, len(g5))})
    if tier == "thorough":
        a5 = all_ugraphs(5, connected=False)
        for i in range(0, len(a5), 16):
            out.append({"kind": "tri5", "lo": i, "hi": min(i + 16, len(a5))})
        # every conversion on the connected 5-node graphs with the other factor layouts
        for lay in LAYOUTS:
            if lay == "edge":
                continue
            for i in range(0, len(g5), 8):
                out.append({"kind": "mn5full", "layout": lay, "lo": i, "hi": min(i + 8, len(g5))})
        # every labelled 5-node DAG as a BN source
        n5 = len(all_dags(5))
        for i in range(0, n5, 100):
            out.append({"kind": "bn", "n": 5, "lo": i, "hi": min(i + 100, n5)})
        # clique trees of every connected 6-node graph (edge layout)
        n6 = len(all_ugraphs(6))
        for i in range(0, n6, 100):
            out.append({"kind": "mn6", "lo": i, "hi": min(i + 100, n6)})
        # triangulate (six heuristics, two explicit orders, in / out of place) on every labelled 6-node graph
        for i in range(0, 1 << 15, 128):
            out.append({"kind": "tri6", "lo": i, "hi": i + 128})
    return out


_g5 = {}


def run_group(g, tier):
    st = Stats()
    if g["kind"] == "mn":
        _mn(st, g)
    elif g["kind"] == "bn":
        dags = all_dags(g["n"])
        for i in range(g["lo"], g["hi"]):
            _bn(st, {"kind": "bn1", "n": g["n"], "edges": [list(e) for e in dags[i]]})
    elif g["kind"] == "mn5":
        if "c" not in _g5:
            _g5["c"] = all_ugraphs(5)
        for i in range(g["lo"], g["hi"]):
            _mn(st, {"kind": "mn", "n": 5, "edges": [list(x) for x in _g5["c"][i]], "card": [2] * 5, "layout": "edge", "perm": None}, jt_only=True)
    elif g["kind"] == "mn5full":
        if "c" not in _g5:
            _g5["c"] = all_ugraphs(5)
        for i in range(g["lo"], g["hi"]):
            _mn(st, {"kind": "mn", "n": 5, "edges": [list(x) for x in _g5["c"][i]], "card": [2, 3, 2, 2, 3], "layout": g["layout"], "perm": None})
    elif g["kind"] == "tri6":
        p6 = list(combinations(range(6), 2))
        for code in range(g["lo"], g["hi"]):
            _mn(st, {"kind": "mn", "n": 6, "edges": [list(p) for i, p in enumerate(p6) if code >> i & 1], "card": [2, 3, 2, 2, 3, 2], "layout": "edge", "perm": None}, tri_only=True)
    elif g["kind"] == "mn6":
        if "c6" not in _g5:
            _g5["c6"] = all_ugraphs(6)
        for i in range(g["lo"], g["hi"]):
            _mn(st, {"kind": "mn", "n": 6, "edges": [list(x) for x in _g5["c6"][i]], "card": [2] * 6, "layout": "edge", "perm": None}, jt_only=True)
    else:
        if "a" not in _g5:
            _g5["a"] = all_ugraphs(5, connected=False)
        for i in range(g["lo"], g["hi"]):
            _mn(st, {"kind": "mn", "n": 5, "edges": [list(x) for x in _g5["a"][i]], "card": [2, 3, 2, 2, 3], "layout": "edge", "perm": None}, tri_only=True)
    return st


def replay(case):
    st = Stats()
    g = case["g"]
    if g["kind"] == "bn1":
        _bn(st, g)
    else:
        _mn(st, g)
    return [v for v in st.violations if v["site"] == case["site"] and (case["kind"] == "x" or v["kind"] == case["kind"])
            and v["case"].get("heur") == case.get("heur") and v["case"].get("inplace") == case.get("inplace") and v["case"].get("card") == case.get("card")][:5]


# ------------------------------------------------------------------ helpers
def chordal(nodes, edges):
    """no induced cycle of length >= 4 (brute force over node subsets)"""
    nodes = list(nodes)
    es = {frozenset(e) for e in edges}
    for k in range(4, len(nodes) + 1):
        for S in combinations(nodes, k):
            sub = [e for e in es if e <= set(S)]
            deg = {v: sum(1 for e in sub if v in e) for v in S}
            if all(d == 2 for d in deg.values()) and len(sub) == k:
                # connected 2-regular on k nodes with k edges => a single cycle iff connected
                seen, stack = {S[0]}, [S[0]]
                while stack:
                    x = stack.pop()
                    for e in sub:
                        if x in e:
                            (y,) = e - {x}
                            if y not in seen:
                                seen.add(y)
                                stack.append(y)
                if len(seen) == k:
                    return False
    return True


def check_jt(st, site, case, jt, lab, n, card, facs, nodes_named):
    """jt: pgmpy JunctionTree built from a source whose factors are `facs` (RefFactors)"""
    import networkx as nx

    st.compared += 1
    cliques = [tuple(c) for c in jt.nodes()]
    bad = None
    names = {lab.name(v) for v in range(n)}
    if set().union(*map(set, cliques)) != names if cliques else names:
        bad = "cliques do not cover the variables"
    und = nx.Graph()
    und.add_nodes_from(cliques)
    und.add_edges_from(jt.edges())
    if bad is None and (not nx.is_connected(und) or und.number_of_edges() != len(cliques) - 1):
        bad = "clique tree is not a connected acyclic graph"
    if bad is None:
        for f in facs:
            sc = {lab.name(v) for v in f.vars}
            if not any(sc <= set(c) for c in cliques):
                bad = f"no clique covers factor scope {sorted(sc)}"
    if bad is None:
        for v in names:
            holding = [c for c in cliques if v in c]
            if not nx.is_connected(und.subgraph(holding)):
                bad = f"running intersection violated for {v}"
    if bad:
        st.violation(site, "invalid-clique-tree", case, [list(map(str, c)) for c in cliques], bad)
        return
    # product of clique potentials == product of all source factors, pointwise (unnormalised)
    exp = RefFactor.const(F(1))
    for f in facs:
        exp = exp.product(f)
    try:
        pots = jt.get_factors()
        if len(pots) != len(cliques):
            st.violation(site, "invalid-clique-tree", case, len(pots), "one potential per clique")
            return
        from pgmpy.factors import factor_product

        prod = factor_product(*pots) if len(pots) > 1 else pots[0]
        d = cmp_named(named_table(prod), ref_named(exp.reorder(range(n)), lab), 1e-9 * float(max(exp.table.values())))
        if d is None:
            for p in pots:
                for v in p.variables:
                    if list(p.state_names[v]) != list(lab.states[lab.id[v]]):
                        d = f"clique potential {list(map(str, p.variables))} lost the state names of {v}: {p.state_names[v]}"
    except Exception as ex:
        d = "exception " + repr(ex)[:200]
    if d:
        st.violation(site, "distribution-changed", case, None, d)
    else:
        st.outcome(len(cliques))


def _mn(st, g, jt_only=False, tri_only=False):
    from pgmpy.factors import factor_product
    from pgmpy.models import MarkovNetwork

    n, edges = g["n"], [tuple(e) for e in g["edges"]]
    card, facs = ref_mn(n, edges, g["card"], g["layout"])
    lab = Labeling(n, card, "str", g["perm"], "str")
    joint = joint_of(n, card, facs)
    Z = joint.total()
    conn = is_connected(n, edges)
    st.states += 1
    fill = not chordal(range(n), edges)
    if g["layout"] == "dup" or fill or len(edges) >= 2:
        st.nt((tuple(edges), g["layout"], tuple(g["card"]), str(g["perm"])))

    def case(site, kind, **kw):
        return {"g": g, "site": site, "kind": kind, **kw}

    def fresh():
        return make_mn(n, edges, facs, lab)
    nm = lambda e: frozenset(lab.name(v) for v in e)
    if not jt_only:
        # ---- triangulate
        for heur in HEUR + [list(p) for p in (permutations(range(n)) if n <= 4 else [tuple(range(n)), tuple(range(n))[::-1]])]:
            for inplace in (False, True):
                m = fresh()
                site = "triangulate"
                st.evals += 1
                st.transitions += 1
                try:
                    if isinstance(heur, list):
                        r = m.triangulate(order=[lab.name(v) for v in heur], inplace=inplace)
                    else:
                        r = m.triangulate(heuristic=heur, inplace=inplace)
                    t = m if inplace else r
                    te = {frozenset(e) for e in t.edges()}
                except Exception as ex:
                    st.violation(site, "exception", case(site, "exception", heur=heur, inplace=inplace), repr(ex)[:200])
                    continue
                st.compared += 1
                src = {nm(e) for e in edges}
                bad = None
                if not src <= te:
                    bad = "not a supergraph"
                elif set(t.nodes()) != {lab.name(v) for v in range(n)}:
                    bad = f"node set changed: {sorted(map(str, t.nodes()))}"
                elif not chordal(list(t.nodes()), te):
                    bad = "result is not chordal"
                elif not inplace and {frozenset(e) for e in m.edges()} != src:
                    bad = "out-of-place triangulation changed the source graph"
                if bad:
                    st.violation(site, "invalid-triangulation", case(site, "invalid-triangulation", heur=heur, inplace=inplace), sorted(map(sorted, te)), bad)
    if tri_only:
        return
    if not jt_only:
        # ---- MN -> FG -> MN
        m = fresh()
        st.evals += 1
        st.transitions += 1
        site = "MarkovNetwork.to_factor_graph"
        try:
            fg = m.to_factor_graph()
            ok = fg.check_model()
            zf = float(fg.get_partition_function())
            prod = factor_product(*fg.get_factors()) if len(fg.get_factors()) > 1 else fg.get_factors()[0]
            st.compared += 1
            d = cmp_named(named_table(prod), ref_named(joint, lab), 1e-9 * float(max(joint.table.values())))
            if not ok or abs(zf - float(Z)) > 1e-9 * float(Z) or d:
                st.violation(site, "distribution-changed", case(site, "distribution-changed"), {"Z": zf}, d or float(Z))
            back = fg.to_markov_model()
            be = {frozenset(e) for e in back.edges()}
            exp_e = {nm(p) for f in facs for p in combinations(f.vars, 2)}
            zb = float(back.get_partition_function())
            st.compared += 1
            if be != exp_e or abs(zb - float(Z)) > 1e-9 * float(Z) or len(back.get_factors()) != len(facs):
                st.violation("FactorGraph.to_markov_model", "distribution-changed", case("FactorGraph.to_markov_model", "distribution-changed"),
                             {"Z": zb, "edges": sorted(map(sorted, be)), "nfactors": len(back.get_factors())}, {"Z": float(Z), "nfactors": len(facs)})
        except Exception as ex:
            st.violation(site, "exception", case(site, "exception"), repr(ex)[:300])
        # ---- hand-built factor graph -> MN / JT
        try:
            fg2 = make_fg(n, facs, lab)
            ok = g["layout"] == "dup" or fg2.check_model()
            if g["layout"] != "dup":
                st.evals += 1
                zb = float(fg2.to_markov_model().get_partition_function())
                st.compared += 1
                if abs(zb - float(Z)) > 1e-9 * float(Z):
                    st.violation("FactorGraph.to_markov_model", "distribution-changed", case("FactorGraph.to_markov_model", "distribution-changed", hand=True), zb, float(Z))
                # a factor graph is connected through its factor scopes (the sparse layout leaves graph edges without a factor)
                if is_connected(n, [p for f in facs for p in combinations(f.vars, 2)]):
                    st.evals += 1
                    jt = fg2.to_junction_tree()
                    check_jt(st, "FactorGraph.to_junction_tree", case("FactorGraph.to_junction_tree", "x"), jt, lab, n, card, facs, None)
        except Exception as ex:
            st.violation("FactorGraph(hand-built)", "exception", case("FactorGraph(hand-built)", "exception"), repr(ex)[:300])
        # partition function of the source itself
        st.evals += 1
        try:
            zm = float(fresh().get_partition_function())
            st.compared += 1
            if abs(zm - float(Z)) > 1e-9 * float(Z):
                st.violation("MarkovNetwork.get_partition_function", "wrong-value", case("MarkovNetwork.get_partition_function", "wrong-value"), zm, float(Z))
        except Exception as ex:
            st.violation("MarkovNetwork.get_partition_function", "exception", case("MarkovNetwork.get_partition_function", "exception"), repr(ex)[:300])
    # ---- MN -> JT (connected only), after forcing each heuristic in place
    if conn:
        for heur in ([None] + HEUR if not jt_only else [None]):
            m = fresh()
            site = "MarkovNetwork.to_junction_tree"
            st.evals += 1
            st.transitions += 1
            try:
                if heur:
                    m.triangulate(heuristic=heur, inplace=True)
                jt = m.to_junction_tree()
            except Exception as ex:
                st.violation(site, "exception", case(site, "exception", heur=heur), repr(ex)[:300])
                continue
            check_jt(st, site, case(site, "x", heur=heur), jt, lab, n, card, facs, None)
    if len(st.samples) < 1:
        st.sample({"graph": g, "Z": float(Z)})


def _bn(st, g):
    n, edges = g["n"], [tuple(e) for e in g["edges"]]
    st.states += 1
    gr = G(n, edges)
    moral = gr.moral_edges()
    conn = is_connected(n, [tuple(e) for e in moral])
    for cv in ((2,) * n, (3, 2, 2, 3, 2)[:n]):
        ref = bn_from_desc({"n": n, "edges": g["edges"], "card": list(cv), "cols": {"fp": 0}})
        lab = Labeling(n, ref.card, "str", None, "str")
        model = make_bn(ref, lab)
        joint = ref.joint()
        facs = [ref.cpd_factor(v) for v in range(n)]

        def case(site, kind, **kw):
            return {"g": g, "site": site, "kind": kind, "card": list(cv), **kw}
        st.evals += 1
        st.transitions += 1
        site = "BayesianNetwork.to_markov_model"
        try:
            mm = model.to_markov_model()
            me = {frozenset(lab.id[x] for x in e) for e in mm.edges()}
            st.compared += 1
            if me != moral or set(mm.nodes()) != {lab.name(v) for v in range(n)}:
                st.violation(site, "not-the-moral-graph", case(site, "not-the-moral-graph"), sorted(map(sorted, me)), sorted(map(sorted, moral)))
            got = sorted(repr(sorted(named_table(f)[1].items(), key=repr)) for f in mm.get_factors())
            exp = sorted(repr(sorted({k: float(v) for k, v in ref_named(f, lab)[1].items()}.items(), key=repr)) for f in facs)
            z = float(mm.get_partition_function())
            st.compared += 1
            if got != exp or abs(z - 1) > 1e-9:
                st.violation(site, "distribution-changed", case(site, "distribution-changed"), {"Z": z}, 1.0)
        except Exception as ex:
            st.violation(site, "exception", case(site, "exception"), repr(ex)[:300])
        if conn:
            st.evals += 1
            st.transitions += 1
            site = "BayesianNetwork.to_junction_tree"
            try:
                jt = model.to_junction_tree()
            except Exception as ex:
                st.violation(site, "exception", case(site, "exception"), repr(ex)[:300])
                continue
            if len(moral) > len(edges):
                st.nt((tuple(edges), cv))
            check_jt(st, site, case(site, "x"), jt, lab, n, ref.card, facs, None)
