"""C20: linear-Gaussian models agree with multivariate-normal algebra (E1)."""
import math
from fractions import Fraction as F
from itertools import combinations, permutations, product

import numpy as np

from mc.gen.dags import all_dags, iso_classes, subsets
from mc.stats import Stats

EXPLORER = "E1"
RULE = ("E1: every labelled DAG on <=3 nodes (iso classes on 4) x every assignment of edge coefficients from {-1, 1/2, 2} x "
        "intercept patterns x variance patterns {1,2} x CPD parent order {as in the graph, reversed}: to_joint_gaussian vs exact Fraction algebra (recursive means, "
        "(I-B)^-T Omega (I-B)^-1); predict for EVERY non-empty proper subset of missing variables and rows from {-1,0,2}^k vs "
        "Sigma_ab Sigma_bb^-1; fit on deterministic full-rank integer data vs least squares; GaussianDistribution "
        "marginalize / reduce / to_canonical_factor / product / divide and CanonicalDistribution reduce / marginalize / "
        "to_joint_gaussian on all positive-definite covariances from a small integer alphabet (2-3 variables), every variable "
        "subset, reduce values from {-1,0,2}: same density as the defining formulas (K, h, and g through the log-density at "
        "probe points). non-trivial = distinct (model, missing set) with >=2 missing variables or >=2 edges; distinct "
        "(covariance, subset) with a non-diagonal covariance")
BOUNDS = {"quick": "n<=3 complete coefficient product (n=3: 25 DAGs x 3^|E| x 2 intercept x 2 variance patterns); n=4: 31 iso classes x 2 coefficient families; "
                   "Gaussian algebra: 2-3 variables, off-diagonals in {-1,0,1}, diagonals {2,3}",
          "thorough": "n=4: all 543 DAGs x 3 families; n=5: 302 iso classes x 3 families and all 29281 labelled DAGs x 1 family; Gaussian algebra on 4 variables (all positive-definite matrices of the alphabet); fit on all 543 4-node DAGs"}
EXHAUSTIVE = {"quick": True, "thorough": True}
ASSUMPTIONS = ["the library rounds joint mean/covariance to 8 decimals: tolerance 1e-7", "numpy.linalg (inv, det, lstsq) trusted for the float references; the LGBN joint is exact (Fractions)",
               "residual variance of fit uses the sample (ddof=1) convention"]

COEF = [F(-1), F(1, 2), F(2)]
NAMES = ["A", "B", "C", "D", "E"]


def groups(tier, seed):
    out = []
    for n in (1, 2, 3):
        for e in all_dags(n):
            out.append({"part": "lgbn", "n": n, "edges": [list(x) for x in e], "fam": None})
    for e in (iso_classes(4) if tier == "quick" else all_dags(4)):
        for fam in ((0, 1) if tier == "quick" else (0, 1, 2)):
            out.append({"part": "lgbn", "n": 4, "edges": [list(x) for x in e], "fam": fam})
    for k in (2, 3):
        out.append({"part": "gauss", "k": k})
    out.append({"part": "fit"})
    if tier == "thorough":
        for e in iso_classes(5):
            for fam in (0, 1, 2):
                out.append({"part": "lgbn", "n": 5, "edges": [list(x) for x in e], "fam": fam})
        d5 = all_dags(5)
        for i in range(0, len(d5), 50):
            out.append({"part": "lgbn5", "lo": i, "hi": min(i + 50, len(d5))})
        n4 = len(covs(4))
        for i in range(0, n4, 100):
            out.append({"part": "gauss", "k": 4, "lo": i, "hi": min(i + 100, n4)})
        out.append({"part": "fit", "all4": True})
    return out


def run_group(g, tier):
    st = Stats()
    if g["part"] == "lgbn5":
        d5 = all_dags(5)
        for i in range(g["lo"], g["hi"]):
            _lgbn(st, {"part": "lgbn", "n": 5, "edges": [list(x) for x in d5[i]], "fam": i % 3})
        return st
    {"lgbn": _lgbn, "gauss": _gauss, "fit": _fit}[g["part"]](st, g)
    return st


def replay(case):
    st = Stats()
    g = case["g"]
    {"lgbn": _lgbn, "gauss": _gauss, "fit": _fit}[g["part"]](st, g)
    keys = ("site", "coef", "ivar", "missing", "cov", "sub", "mean", "evrev")
    return [v for v in st.violations if all(v["case"].get(k) == case.get(k) for k in keys)][:5]


# ------------------------------------------------------------------ exact helpers
def finv(M):
    n = len(M)
    A = [list(map(F, row)) + [F(int(i == j)) for j in range(n)] for i, row in enumerate(M)]
    for c in range(n):
        p = next(r for r in range(c, n) if A[r][c] != 0)
        A[c], A[p] = A[p], A[c]
        pv = A[c][c]
        A[c] = [x / pv for x in A[c]]
        for r in range(n):
            if r != c and A[r][c] != 0:
                f = A[r][c]
                A[r] = [x - f * y for x, y in zip(A[r], A[c])]
    return [row[n:] for row in A]


def fmul(A, B):
    return [[sum(A[i][k] * B[k][j] for k in range(len(B))) for j in range(len(B[0]))] for i in range(len(A))]


def ref_joint(n, edges, coef, icpt, var):
    """structural equations X_v = icpt_v + sum coef[(u,v)] X_u + eps_v.  returns (mean list, cov matrix) in node order 0..n-1"""
    pa = {v: [a for a, b in edges if b == v] for v in range(n)}
    order, done = [], set()
    while len(order) < n:
        for v in range(n):
            if v not in done and all(p in done for p in pa[v]):
                order.append(v)
                done.add(v)
    mean = {}
    for v in order:
        mean[v] = icpt[v] + sum(coef[(u, v)] * mean[u] for u in pa[v])
    # X = (I - B^T)^-1 (icpt + eps), B[u][v] = coef(u->v)
    IB = [[F(int(i == j)) - (coef.get((j, i), F(0))) for j in range(n)] for i in range(n)]  # I - B^T
    A = finv(IB)
    Om = [[var[i] if i == j else F(0) for j in range(n)] for i in range(n)]
    cov = fmul(fmul(A, Om), [list(r) for r in zip(*A)])
    return [mean[v] for v in range(n)], cov


def mk_lgbn(n, edges, coef, icpt, var, edge_order=None, ev_rev=False):
    from pgmpy.factors.continuous import LinearGaussianCPD
    from pgmpy.models import LinearGaussianBayesianNetwork

    m = LinearGaussianBayesianNetwork()
    m.add_nodes_from(NAMES[:n])
    m.add_edges_from([(NAMES[a], NAMES[b]) for a, b in (edge_order or edges)])
    for v in range(n):
        pa = [a for a, b in edges if b == v]
        if ev_rev:
            # the CPD lists its parents in the opposite order from the graph (coefficients stay attached to their parent)
            pa = pa[::-1]
        m.add_cpds(LinearGaussianCPD(NAMES[v], [float(icpt[v])] + [float(coef[(u, v)]) for u in pa], float(var[v]), [NAMES[u] for u in pa]))
    return m


def _lgbn(st, g):
    import networkx as nx
    import pandas as pd

    n, edges = g["n"], [tuple(e) for e in g["edges"]]
    st.states += 1
    if g["fam"] is None:
        coefs = list(product(range(3), repeat=len(edges)))
    else:
        coefs = [tuple((g["fam"] + i * (g["fam"] + 1)) % 3 for i in range(len(edges)))]
    ivars = [((0,) * n, (1,) * n), (tuple(range(n)), tuple(1 + (i % 2) for i in range(n)))] if n > 1 else [((0,), (1,)), ((1,), (2,))]
    for ci in coefs:
        coef = {e: COEF[k] for e, k in zip(edges, ci)}
        multi = any(sum(1 for a, b in edges if b == v) >= 2 for v in range(n))
        for ip, vp, ev_rev in [(ip, vp, r) for ip, vp in ivars for r in ((False, True) if multi else (False,))]:
            icpt, var = [F(x) for x in ip], [F(x) for x in vp]
            base = {"g": g, "coef": list(ci), "ivar": [list(ip), list(vp)], "evrev": ev_rev}
            mu, cov = ref_joint(n, edges, coef, icpt, var)
            try:
                model = mk_lgbn(n, edges, coef, icpt, var, ev_rev=ev_rev)
                order = [NAMES.index(x) for x in nx.topological_sort(model)]
            except Exception as ex:
                st.violation("LinearGaussianBayesianNetwork", "exception", dict(base, site="LinearGaussianBayesianNetwork"), repr(ex)[:200])
                continue
            st.evals += 1
            st.transitions += 1
            try:
                gm, gc = model.to_joint_gaussian()
            except Exception as ex:
                st.violation("to_joint_gaussian", "exception", dict(base, site="to_joint_gaussian"), repr(ex)[:200])
                continue
            st.compared += 1
            em = np.array([float(mu[v]) for v in order])
            ec = np.array([[float(cov[a][b]) for b in order] for a in order])
            if len(edges) >= 2:
                st.nt((tuple(edges), ci, ip))
            if np.abs(np.asarray(gm).reshape(-1) - em).max() > 1e-7 or np.abs(np.asarray(gc) - ec).max() > 1e-7:
                st.violation("to_joint_gaussian", "wrong-joint", dict(base, site="to_joint_gaussian"), {"mean": np.asarray(gm).tolist(), "cov": np.asarray(gc).tolist()},
                             {"mean": em.tolist(), "cov": ec.tolist(), "order": order})
                continue
            st.outcome(tuple(np.round(ec.reshape(-1), 6)))
            # predict for every non-empty proper subset of missing variables
            if n >= 2 and (g["fam"] is not None or ip != (0,) * n or n <= 2 or sum(ci) % 2 == 0):
                for miss in subsets(range(n)):
                    if not miss or len(miss) == n:
                        continue
                    obs = [v for v in range(n) if v not in miss]
                    rows = list(product((-1, 0, 2), repeat=len(obs)))
                    rows = rows[:: max(1, len(rows) // 4)][:4]
                    df = pd.DataFrame(rows, columns=[NAMES[v] for v in obs], dtype=float)
                    if len(obs) % 2 == 0:
                        df.index = [3 * (len(df) - i) + 2 for i in range(len(df))]  # the index is not content
                    case = dict(base, site="predict", missing=list(miss))
                    st.evals += 1
                    st.transitions += 1
                    try:
                        vars_, mc, cc = model.predict(df)
                    except Exception as ex:
                        st.violation("predict", "exception", case, repr(ex)[:200])
                        continue
                    if len(miss) >= 2:
                        st.nt((tuple(edges), ci, miss))
                    st.compared += 1
                    mo = [NAMES.index(x) for x in vars_]
                    if sorted(mo) != sorted(miss):
                        st.violation("predict", "wrong-variables", case, list(vars_), [NAMES[v] for v in miss])
                        continue
                    S = np.array([[float(cov[a][b]) for b in range(n)] for a in range(n)])
                    m_ = np.array([float(x) for x in mu])
                    Sab = S[np.ix_(mo, obs)]
                    Sbb_inv = np.linalg.inv(S[np.ix_(obs, obs)])
                    ecov = S[np.ix_(mo, mo)] - Sab @ Sbb_inv @ Sab.T
                    emean = m_[mo][None, :] + (Sab @ Sbb_inv @ (np.array(rows, dtype=float) - m_[obs][None, :]).T).T
                    bad = None
                    try:
                        if np.asarray(cc).shape != ecov.shape or np.abs(np.asarray(cc) - ecov).max() > 1e-6:
                            bad = "conditional covariance"
                        elif np.asarray(mc).shape != emean.shape or np.abs(np.asarray(mc) - emean).max() > 1e-6:
                            bad = "conditional mean"
                    except Exception as ex:
                        bad = "malformed result " + repr(ex)[:80]
                    if bad:
                        st.violation("predict", "wrong-conditional", case, {"mean": np.asarray(mc).tolist(), "cov": np.asarray(cc).tolist()},
                                     {"what": bad, "mean": emean.tolist(), "cov": ecov.tolist()})
    if len(st.samples) < 1:
        st.sample({"model": g, "coefficient_alphabet": [str(c) for c in COEF]})


# ------------------------------------------------------------------ fit
def _fit(st, g):
    import pandas as pd

    from pgmpy.models import LinearGaussianBayesianNetwork

    base_rows = [(1, 0, 2, -1), (0, 1, 1, 2), (2, 2, 0, 0), (-1, 1, 3, 1), (3, -1, 1, 1), (0, 0, -2, 3), (1, 3, 2, 2), (2, -2, 0, -1)]
    st.states += 1
    for n in (2, 3, 4):
        for e in (all_dags(n) if n <= 3 or g.get("all4") else iso_classes(4)):
            if g.get("all4") and n < 4:
                continue
            for shift in (0, 5):
                data = pd.DataFrame([[float(x + shift * (i == 1)) for i, x in enumerate(r[:n])] for r in base_rows], columns=NAMES[:n])
                if shift:
                    data.index = [3 * (len(data) - i) + 2 for i in range(len(data))]  # the index is not content
                case = {"g": g, "site": "fit", "coef": [list(x) for x in e], "ivar": [n, shift]}
                m = LinearGaussianBayesianNetwork()
                m.add_nodes_from(NAMES[:n])
                m.add_edges_from([(NAMES[a], NAMES[b]) for a, b in e])
                st.evals += 1
                st.transitions += 1
                st.nt((n, e, shift))
                try:
                    m.fit(data)
                    cpds = {c.variable: c for c in m.get_cpds()}
                except Exception as ex:
                    st.violation("fit", "exception", case, repr(ex)[:200])
                    continue
                for v in range(n):
                    pa = [a for a, b in e if b == v]
                    y = data[NAMES[v]].values
                    A = np.column_stack([np.ones(len(y))] + [data[NAMES[u]].values for u in pa])
                    beta = np.linalg.lstsq(A, y, rcond=None)[0]
                    res = y - A @ beta
                    evar = float(res.var(ddof=1))
                    c = cpds.get(NAMES[v])
                    st.compared += 1
                    try:
                        got = np.asarray(c.mean, dtype=float).reshape(-1)
                        ev = list(c.evidence)
                        # align coefficients by parent NAME
                        exp = [beta[0]] + [beta[1 + pa.index(NAMES.index(x))] for x in ev]
                        ok = len(got) == len(exp) and np.abs(got - np.array(exp)).max() < 1e-7 and abs(float(c.variance) - evar) < 1e-7 and set(ev) == {NAMES[u] for u in pa}
                    except Exception:
                        ok = False
                    if not ok:
                        st.violation("fit", "wrong-parameters", dict(case, missing=[v]), {"mean": None if c is None else np.asarray(c.mean).tolist(), "var": None if c is None else float(c.variance)},
                                     {"beta": beta.tolist(), "var": evar})
                        break


# ------------------------------------------------------------------ Gaussian algebra
def logpdf(x, mean, cov):
    k = len(mean)
    d = np.asarray(x, dtype=float) - np.asarray(mean, dtype=float)
    return float(-0.5 * d @ np.linalg.inv(cov) @ d - 0.5 * math.log((2 * math.pi) ** k * np.linalg.det(cov)))


def canon_log(c, names, point):
    """log of the canonical form at `point` (dict name->value)"""
    x = np.array([point[v] for v in c.variables], dtype=float).reshape(-1, 1)
    return float((-0.5 * x.T @ np.asarray(c.K, dtype=float) @ x + np.asarray(c.h, dtype=float).reshape(1, -1) @ x)[0, 0] + float(c.g))


_COVS = {}


def covs(k):
    if k in _COVS:
        return _COVS[k]
    out = []
    off = list(product((-1, 0, 1), repeat=k * (k - 1) // 2))
    for diag in product((2, 3), repeat=k):
        for o in off:
            S = np.diag(np.array(diag, dtype=float))
            for (i, j), val in zip(combinations(range(k), 2), o):
                S[i, j] = S[j, i] = val
            if np.all(np.linalg.eigvalsh(S) > 1e-9):
                out.append(S)
    _COVS[k] = out
    return out


def _gauss(st, g):
    from pgmpy.factors.continuous import CanonicalDistribution
    from pgmpy.factors.distributions import GaussianDistribution

    k = g["k"]
    names = NAMES[:k]
    probes = [dict(zip(names, p)) for p in ((0.0,) * k, (1.0, -1.0, 2.0, 0.5)[:k], (-2.0, 0.5, 1.0, -1.0)[:k])]
    st.states += 1
    for ci, S in enumerate(covs(k)):
        if "lo" in g and not g["lo"] <= ci < g["hi"]:
            continue
        for mean in ((0.0,) * k, (1.0, -3.0, 4.0, 2.0)[:k]):
            base = {"g": g, "cov": S.tolist(), "mean": list(mean)}
            nondiag = bool(np.abs(S - np.diag(np.diag(S))).max() > 0)

            def fresh():
                return GaussianDistribution(list(names), list(mean), S.copy())
            # to_canonical_factor: same log-density everywhere
            st.evals += 1
            st.transitions += 1
            try:
                c = fresh().to_canonical_factor()
                st.compared += 1
                Kexp = np.linalg.inv(S)
                hexp = Kexp @ np.array(mean).reshape(-1, 1)
                bad = np.abs(np.asarray(c.K) - Kexp).max() > 1e-7 or np.abs(np.asarray(c.h) - hexp).max() > 1e-7
                for p in probes:
                    if abs(canon_log(c, names, p) - logpdf([p[v] for v in names], mean, S)) > 1e-7:
                        bad = True
                if bad:
                    st.violation("to_canonical_factor", "wrong-density", dict(base, site="to_canonical_factor", sub=None), None, None)
                back = c.to_joint_gaussian()
                if np.abs(np.asarray(back.mean).reshape(-1) - np.array(mean)).max() > 1e-7 or np.abs(np.asarray(back.covariance) - S).max() > 1e-7:
                    st.violation("CanonicalDistribution.to_joint_gaussian", "wrong-density", dict(base, site="CanonicalDistribution.to_joint_gaussian", sub=None), None, None)
            except Exception as ex:
                st.violation("to_canonical_factor", "exception", dict(base, site="to_canonical_factor", sub=None), repr(ex)[:200])
                continue
            for sub in subsets(range(k)):
                if not sub or len(sub) == k:
                    continue
                keep = [i for i in range(k) if i not in sub]
                if nondiag:
                    st.nt((ci, mean, sub))
                case = dict(base, sub=list(sub))
                # ---- GaussianDistribution.marginalize
                for inplace in (False, True):
                    gd = fresh()
                    st.evals += 1
                    st.transitions += 1
                    try:
                        r = gd.marginalize([names[i] for i in sub], inplace=inplace)
                        r = gd if inplace else r
                        st.compared += 1
                        if list(r.variables) != [names[i] for i in keep] or np.abs(np.asarray(r.mean).reshape(-1) - np.array(mean)[keep]).max() > 1e-7 \
                                or np.abs(np.asarray(r.covariance) - S[np.ix_(keep, keep)]).max() > 1e-7:
                            st.violation("GaussianDistribution.marginalize", "wrong-density", dict(case, site="GaussianDistribution.marginalize"), None, None)
                        if not inplace and (np.abs(np.asarray(gd.covariance) - S).max() > 0 or list(gd.variables) != list(names)):
                            st.violation("GaussianDistribution.marginalize", "operand-mutated", dict(case, site="GaussianDistribution.marginalize"), None, None)
                    except Exception as ex:
                        st.violation("GaussianDistribution.marginalize", "exception", dict(case, site="GaussianDistribution.marginalize"), repr(ex)[:200])
                # ---- CanonicalDistribution.marginalize: density of the marginal Gaussian
                st.evals += 1
                st.transitions += 1
                try:
                    cm = fresh().to_canonical_factor().marginalize([names[i] for i in sub], inplace=False)
                    st.compared += 1
                    for p in probes:
                        e_ = logpdf([p[names[i]] for i in keep], np.array(mean)[keep], S[np.ix_(keep, keep)])
                        if abs(canon_log(cm, names, p) - e_) > 1e-7:
                            # model of the recorded defect F26: K and h right, g built with h_j' K_jj h_j instead of h_j' K_jj^-1 h_j
                            K0 = np.linalg.inv(S)
                            h0 = K0 @ np.array(mean).reshape(-1, 1)
                            jj = list(sub)
                            Kjj, hj = K0[np.ix_(jj, jj)], h0[jj]
                            shift = 0.5 * float((hj.T @ Kjj @ hj - hj.T @ np.linalg.inv(Kjj) @ hj)[0, 0])
                            st.violation("CanonicalDistribution.marginalize", "wrong-density", dict(case, site="CanonicalDistribution.marginalize"),
                                         {"K": np.asarray(cm.K).tolist(), "h": np.asarray(cm.h).tolist(), "g": float(cm.g), "log_value": canon_log(cm, names, p)}, e_,
                                         detail={"f26_model_match": bool(abs(canon_log(cm, names, p) - (e_ + shift)) <= 1e-7)})
                            break
                except Exception as ex:
                    st.violation("CanonicalDistribution.marginalize", "exception", dict(case, site="CanonicalDistribution.marginalize"), repr(ex)[:200])
                # ---- reduce (conditioning) for values from {-1, 0, 2}
                for vals in list(product((-1.0, 0.0, 2.0), repeat=len(sub)))[::max(1, 3 ** len(sub) // 3)]:
                    st.evals += 2
                    st.transitions += 2
                    try:
                        r = fresh().reduce([(names[i], v) for i, v in zip(sub, vals)], inplace=False)
                        Sab = S[np.ix_(keep, list(sub))]
                        Sbb_inv = np.linalg.inv(S[np.ix_(list(sub), list(sub))])
                        em = np.array(mean)[keep] + Sab @ Sbb_inv @ (np.array(vals) - np.array(mean)[list(sub)])
                        ec = S[np.ix_(keep, keep)] - Sab @ Sbb_inv @ Sab.T
                        st.compared += 1
                        if list(r.variables) != [names[i] for i in keep] or np.abs(np.asarray(r.mean).reshape(-1) - em).max() > 1e-7 or np.abs(np.asarray(r.covariance) - ec).max() > 1e-7:
                            st.violation("GaussianDistribution.reduce", "wrong-density", dict(case, site="GaussianDistribution.reduce"), None, {"vals": list(vals)})
                        # canonical reduce: plug-in, un-normalised: value at x_keep equals the joint value at (x_keep, vals)
                        cr = fresh().to_canonical_factor().reduce([(names[i], v) for i, v in zip(sub, vals)], inplace=False)
                        st.compared += 1
                        for p in probes:
                            full = dict(p)
                            for i, v in zip(sub, vals):
                                full[names[i]] = v
                            e_ = logpdf([full[v] for v in names], mean, S)
                            if abs(canon_log(cr, names, p) - e_) > 1e-7:
                                st.violation("CanonicalDistribution.reduce", "wrong-density", dict(case, site="CanonicalDistribution.reduce"), canon_log(cr, names, p), e_)
                                break
                    except Exception as ex:
                        st.violation("reduce", "exception", dict(case, site="reduce"), repr(ex)[:200])
            # ---- product / divide of two Gaussians sharing variables (through canonical forms)
            if k == 2 and ci % 3 == 0:
                for S2 in covs(2)[::5]:
                    for names2 in (["B", "C"], ["A", "B"], ["C", "D"], ["B", "A"], ["C", "B"], ["C", "A"]):
                        case = dict(base, sub=["product", names2, S2.tolist()])
                        st.evals += 1
                        st.transitions += 1
                        try:
                            a = fresh()
                            b = GaussianDistribution(list(names2), [0.5, -1.0], S2.copy())  # operand orders that differ from the combined scope order are included
                            ca, cb = a.to_canonical_factor(), b.to_canonical_factor()
                            pr = ca.product(cb, inplace=False)
                            allv = list(names) + [v for v in names2 if v not in names]
                            st.compared += 1
                            for pt in ((0.0, 1.0, -1.0, 2.0), (1.0, 0.0, 2.0, -2.0)):
                                p = dict(zip(NAMES, pt))
                                e_ = logpdf([p[v] for v in names], mean, S) + logpdf([p[v] for v in names2], [0.5, -1.0], S2)
                                if abs(canon_log(pr, allv, p) - e_) > 1e-7:
                                    st.violation("CanonicalDistribution.product", "wrong-density", dict(case, site="CanonicalDistribution.product"), canon_log(pr, allv, p), e_)
                                    break
                            dv = pr.divide(cb, inplace=False)
                            for pt in ((0.0, 1.0, -1.0, 2.0),):
                                p = dict(zip(NAMES, pt))
                                if abs(canon_log(dv, allv, p) - logpdf([p[v] for v in names], mean, S)) > 1e-7:
                                    st.violation("CanonicalDistribution.divide", "wrong-density", dict(case, site="CanonicalDistribution.divide"), None, None)
                            # GaussianDistribution.product: normalised Gaussian proportional to the product (overlapping scopes)
                            if set(names2) & set(names):
                                gp = a.product(b, inplace=False)
                                vals_ = []
                                for pt in ((0.0, 1.0, -1.0, 2.0), (1.0, 0.0, 2.0, -2.0), (-1.0, 2.0, 0.5, 0.0)):
                                    p = dict(zip(NAMES, pt))
                                    lp = logpdf([p[v] for v in gp.variables], np.asarray(gp.mean).reshape(-1), np.asarray(gp.covariance))
                                    vals_.append(lp - logpdf([p[v] for v in names], mean, S) - logpdf([p[v] for v in names2], [0.5, -1.0], S2))
                                st.compared += 1
                                if max(vals_) - min(vals_) > 1e-6:
                                    st.violation("GaussianDistribution.product", "wrong-density", dict(case, site="GaussianDistribution.product"), vals_, "constant")
                        except Exception as ex:
                            st.violation("product", "exception", dict(case, site="product"), repr(ex)[:200])
    st.sample({"k": k, "covariances": len(covs(k)), "first": covs(k)[1].tolist()})
