"""C12: constraint-based discovery with an exact d-separation oracle; PDAG extension (E1)."""
from itertools import combinations, permutations, product

from mc.gen.dags import all_dags, is_acyclic, iso_classes, subsets
from mc.ref.graphs import G
from mc.stats import Stats

EXPLORER = "E1"
RULE = ("E1: every labelled DAG up to the node bound as ground truth x every column order of the frame handed to PC "
        "(= visiting order of node pairs) x variant {orig, stable, parallel(n_jobs=1)} x return_type {skeleton, pdag, "
        "cpdag, dag} x oracle style {callable d-separation test, independence_match on the complete elementary list}; "
        "skeleton_to_pdag on (true skeleton x every valid choice of separating sets); PDAG.to_dag on every PDAG "
        "with <=4 nodes that has a consistent extension. oracle: brute-force Markov equivalence class (all DAGs with the "
        "same skeleton and v-structures). non-trivial = distinct ground truths with at least one compelled and one "
        "reversible edge, or PDAGs with >=1 undirected edge")
BOUNDS = {"quick": "PC: all DAGs n<=4 x all column orders (n=4: the 12 even permutations) x 3 variants x callable oracle; independence_match on n<=4 with 3 relabelings; "
                   "skeleton_to_pdag: all sepset choices n<=4 and all 29281 DAGs on 5 nodes (minimal sepsets, one node order); complete PC on the 302 classes of 5-node DAGs x 2 column orders x 3 variants; to_dag: all 4^6 PDAG codes on 4 nodes (and n<=3)",
          "thorough": "adds all 29281 DAGs on 5 nodes x 6 column orders x {orig, stable}; orientation phase on all 32768 order-respecting 6-node DAGs x 4 node presentations; to_dag on all 4^10 five-node PDAG codes"}
EXHAUSTIVE = {"quick": True, "thorough": True}
ASSUMPTIONS = ["max_cond_vars in {n, maximum degree of the true skeleton} (the property requires >= max degree)", "independence_match needs every variable to occur in some statement (PC reads the variable set from the list)"]

NAMES = ["A", "B", "C", "D", "E"]
_classes = {}


def classes(n):
    """(skeleton, vstructs) -> list of member DAG edge tuples"""
    if n not in _classes:
        d = {}
        for e in _dags(n):
            g = G(n, e)
            d.setdefault((frozenset(g.skeleton()), frozenset(g.vstructs())), []).append(e)
        _classes[n] = d
    return _classes[n]


def cpdag_of(n, edges):
    g = G(n, edges)
    members = classes(n)[(frozenset(g.skeleton()), frozenset(g.vstructs()))]
    directed, undirected = set(), set()
    for a, b in edges:
        if all((a, b) in m for m in members):
            directed.add((a, b))
        else:
            undirected.add(frozenset((a, b)))
    return directed, undirected, members


def groups(tier, seed):
    out = []
    for n in (2, 3, 4):
        m = len(all_dags(n))
        step = 6 if n == 4 else 30
        for i in range(0, m, step):
            out.append({"part": "pc", "n": n, "lo": i, "hi": min(i + step, m)})
        for i in range(0, m, 40):
            out.append({"part": "s2p", "n": n, "lo": i, "hi": min(i + 40, m)})
    for n in (2, 3):
        out.append({"part": "todag", "n": n, "lo": 0, "hi": 4 ** (n * (n - 1) // 2)})
    for i in range(0, 4096, 128):
        out.append({"part": "todag", "n": 4, "lo": i, "hi": i + 128})
    # orientation phase on ALL 29281 five-node DAGs (true skeleton, minimal separating sets, one node order; thorough: 4 orders)
    for i in range(0, 29281, 400):
        out.append({"part": "s2p5", "lo": i, "hi": min(i + 400, 29281), "orders": 1 if tier == "quick" else 4})
    if tier == "thorough":
        for i in range(0, 29281, 150):
            out.append({"part": "pc5", "n": 5, "lo": i, "hi": min(i + 150, 29281)})
        # orientation phase on SIX nodes: every DAG whose edges respect the order 0<1<..<5 (2^15 edge sets = every unlabelled
        # 6-node DAG in at least one labelling) x 4 node presentations
        for i in range(0, 1 << 15, 128):
            out.append({"part": "s2p6", "lo": i, "hi": i + 128})
        # PDAG.to_dag on every one of the 4^10 five-node PDAG codes
        for i in range(0, 4 ** 10, 4096):
            out.append({"part": "todag", "n": 5, "lo": i, "hi": i + 4096})
    else:
        # the complete algorithm (skeleton phase included) on the 302 isomorphism classes of 5-node DAGs, 2 column orders, 3 variants
        iso5 = iso_classes(5)
        for i in range(0, len(iso5), 8):
            out.append({"part": "pc5iso", "dags": [[list(e) for e in d] for d in iso5[i:i + 8]], "rot": seed})
    return out


_d5 = None


def _dags(n):
    global _d5
    if n == 5:
        if _d5 is None:
            _d5 = all_dags(5)
        return _d5
    return all_dags(n)


def run_group(g, tier):
    st = Stats()
    if g["part"] in ("pc", "pc5"):
        dags = _dags(g["n"])
        for i in range(g["lo"], g["hi"]):
            _pc(st, g["n"], dags[i], tier, five=(g["part"] == "pc5"))
    elif g["part"] == "pc5iso":
        for d in g["dags"]:
            _pc(st, 5, tuple(tuple(e) for e in d), tier, five=True, norders=2, rot=g["rot"])
    elif g["part"] == "s2p6":
        for code in range(g["lo"], g["hi"]):
            _s2p6(st, code)
    elif g["part"] == "s2p5":
        dags = _dags(5)
        for i in range(g["lo"], g["hi"]):
            _s2p5(st, dags[i], g["orders"])
    elif g["part"] == "s2p":
        dags = _dags(g["n"])
        for i in range(g["lo"], g["hi"]):
            _s2p(st, g["n"], dags[i])
    else:
        for code in range(g["lo"], g["hi"]):
            _todag(st, g["n"], code)
    return st


def replay(case):
    st = Stats()
    if case["part"] == "pc":
        _pc_one(st, case["n"], [tuple(e) for e in case["edges"]], case["order"], case["variant"], case["rt"], case["oracle"], case.get("names", "str"), case.get("mcv"))
    elif case["part"] == "s2p6":
        _s2p6(st, case["code"], only_order=case["order"])
    elif case["part"] == "s2p5":
        _s2p5(st, tuple(tuple(e) for e in case["edges"]), 4, only_order=case["order"])
    elif case["part"] == "s2p":
        _s2p(st, case["n"], [tuple(e) for e in case["edges"]], only=case.get("choice"))
    else:
        _todag(st, case["n"], case["code"])
    return st.violations[:5]


# ------------------------------------------------------------------ PC
def _pc(st, n, edges, tier, five=False, norders=6, rot=0):
    g = G(n, edges)
    d, u, members = cpdag_of(n, edges) if n <= 4 else (None, None, None)
    st.states += 1
    if n <= 4 and d and u:
        st.nt(edges)
    orders = list(permutations(range(n)))
    if five:
        k = (hash(edges) + rot) % 20
        orders = [orders[(k + 20 * j) % 120] for j in range(6)][:norders]
    if n == 4 and tier == "quick":
        # the 12 even permutations already realise both relative orders of every pair of nodes
        orders = [o for o in orders if sum(1 for i in range(4) for j in range(i) if o[j] > o[i]) % 2 == 0]
    for order in orders:
        for variant in (("orig", "stable") if (five and norders == 6) else ("orig", "stable", "parallel")):
            for rt in (("cpdag",) if five else ("skeleton", "pdag", "cpdag", "dag")):
                if rt == "pdag" and variant != "orig":
                    continue  # same code path as cpdag; one variant suffices
                if variant == "parallel" and rt == "dag":
                    continue
                _pc_one(st, n, edges, list(order), variant, rt, "callable", "int" if sum(order) % 2 else "str")
    if not five and edges:
        # the tightest admissible bound: max_cond_vars == maximum degree of the true skeleton
        gsk = G(n, edges)
        maxdeg = max(len(gsk.adj[v]) for v in range(n))
        for order in orders[:2] + orders[-1:]:
            for variant in ("orig", "stable", "parallel"):
                _pc_one(st, n, edges, list(order), variant, "cpdag", "callable", "str", mcv=maxdeg)
    if not five:
        # independence_match on the complete list of elementary statements, 3 relabelings
        for perm in (orders[0], orders[len(orders) // 2], orders[-1]):
            for variant in ("orig", "stable"):
                for rt in ("cpdag", "dag"):
                    _pc_one(st, n, edges, list(perm), variant, rt, "match", "str")


def _pc_one(st, n, edges, order, variant, rt, oracle, names, mcv=None):
    import pandas as pd

    from pgmpy.estimators import PC
    from pgmpy.independencies import Independencies

    g = G(n, edges)
    case = {"part": "pc", "n": n, "edges": [list(e) for e in edges], "order": order, "variant": variant, "rt": rt, "oracle": oracle, "names": names, "mcv": mcv}
    if oracle == "callable":
        nm = [NAMES[v] for v in range(n)] if names == "str" else list(range(n))
        idx = {x: i for i, x in enumerate(nm)}

        def ci(X, Y, Z, **kw):
            return not g.dconnected(idx[X], idx[Y], {idx[z] for z in Z})
        pc = PC(data=pd.DataFrame(columns=[nm[v] for v in order]))
        kw = {"ci_test": ci}
    else:
        # relabel: node v is called NAMES[order[v]]
        nm = [NAMES[order[v]] for v in range(n)]
        idx = {x: i for i, x in enumerate(nm)}
        ind = Independencies()
        used = set()
        for x, y in combinations(range(n), 2):
            for Z in subsets([v for v in range(n) if v not in (x, y)]):
                if not g.dconnected(x, y, set(Z)):
                    ind.add_assertions([[nm[x]], [nm[y]], [nm[z] for z in Z]])
                    used |= {x, y} | set(Z)
        if len(used) < n:
            st.bump("match-skipped-variable-not-mentioned")
            return
        pc = PC(independencies=ind)
        kw = {"ci_test": "independence_match"}
    st.evals += 1
    st.transitions += 1
    try:
        res = pc.estimate(variant=variant, max_cond_vars=n if mcv is None else mcv, return_type=rt, show_progress=False, n_jobs=1, **kw)
    except Exception as ex:
        st.violation("PC.estimate", "exception", case, repr(ex)[:300])
        return
    st.compared += 1
    skel = g.skeleton()
    if rt == "skeleton":
        sk, seps = res
        got = {frozenset((idx[a], idx[b])) for a, b in sk.edges()}
        if got != skel:
            st.violation("PC.skeleton", "wrong-skeleton", case, sorted(map(sorted, got)), sorted(map(sorted, skel)))
            return
        for x, y in combinations(range(n), 2):
            if frozenset((x, y)) in skel:
                continue
            key = frozenset((nm[x], nm[y]))
            if key not in seps:
                st.violation("PC.skeleton", "missing-sepset", case, None, [x, y])
                continue
            S = {idx[z] for z in seps[key]}
            if x in S or y in S or g.dconnected(x, y, S):
                st.violation("PC.skeleton", "wrong-sepset", case, sorted(S), [x, y])
        return
    if n > 4:
        d, u = _cpdag_meek(n, edges)
        members = None
    else:
        d, u, members = cpdag_of(n, edges)
    if rt in ("pdag", "cpdag"):
        und = {frozenset((idx[a], idx[b])) for a, b in res.undirected_edges}
        dire = {(idx[a], idx[b]) for a, b in res.directed_edges}
        alle = {(idx[a], idx[b]) for a, b in res.edges()}
        # consistency of the object itself
        if alle != dire | {tuple(p) for e in und for p in (tuple(e), tuple(e)[::-1])}:
            st.violation("PC.cpdag", "inconsistent-object", case, sorted(alle), None)
            return
        if dire != d or und != u:
            kind = "directed-cycle" if not is_acyclic(n, sorted(dire)) else "wrong-cpdag"
            st.violation("PC.cpdag", kind, case, {"directed": sorted(dire), "undirected": sorted(map(sorted, und))},
                         {"directed": sorted(d), "undirected": sorted(map(sorted, u))})
        if {idx[a] for a in res.nodes()} != set(range(n)):
            st.violation("PC.cpdag", "wrong-nodes", case, sorted(map(str, res.nodes())), n)
        st.outcome((len(d), len(u)))
    else:
        got = tuple(sorted((idx[a], idx[b]) for a, b in res.edges()))
        ok = (got in members) if members is not None else (
            is_acyclic(n, got) and G(n, got).skeleton() == skel and G(n, got).vstructs() == g.vstructs())
        if not ok or {idx[a] for a in res.nodes()} != set(range(n)):
            st.violation("PC.dag", "not-in-class", case, list(got), [list(e) for e in edges])
    if len(st.samples) < 1 and len(edges) >= 3:
        st.sample(case)


def _cpdag_meek(n, edges):
    """CPDAG for n=5 by brute force over orientations of the skeleton (3^k is too big only beyond n=5)"""
    g = G(n, edges)
    skel = sorted(tuple(sorted(e)) for e in g.skeleton())
    vs = g.vstructs()
    members = []
    for bits in product((0, 1), repeat=len(skel)):
        e = tuple(sorted((a, b) if o == 0 else (b, a) for (a, b), o in zip(skel, bits)))
        if is_acyclic(n, e) and G(n, e).vstructs() == vs:
            members.append(set(e))
    d = {e for e in edges if all(e in m for m in members)}
    u = {frozenset(e) for e in edges if e not in d}
    return d, u


# ------------------------------------------------------------ skeleton_to_pdag
def _s2p(st, n, edges, only=None):
    import networkx as nx

    from pgmpy.estimators import PC

    g = G(n, edges)
    d, u, members = cpdag_of(n, edges)
    pairs = [(x, y) for x, y in combinations(range(n), 2) if frozenset((x, y)) not in g.skeleton()]
    options = []
    for x, y in pairs:
        options.append([Z for Z in subsets([v for v in range(n) if v not in (x, y)]) if not g.dconnected(x, y, set(Z))])
    st.states += 1
    for ci, choice in enumerate(product(*options)):
        if only is not None and ci != only:
            continue
        case = {"part": "s2p", "n": n, "edges": [list(e) for e in edges], "choice": ci}
        sk = nx.Graph()
        sk.add_nodes_from(range(n))
        sk.add_edges_from([tuple(e) for e in g.skeleton()])
        seps = {frozenset(p): tuple(Z) for p, Z in zip(pairs, choice)}
        st.evals += 1
        st.transitions += 1
        try:
            res = PC.skeleton_to_pdag(sk, seps)
        except Exception as ex:
            st.violation("skeleton_to_pdag", "exception", case, repr(ex)[:300])
            continue
        st.compared += 1
        und = {frozenset(e) for e in res.undirected_edges}
        dire = set(res.directed_edges)
        if dire != d or und != u:
            kind = "directed-cycle" if not is_acyclic(n, sorted(dire)) else "wrong-cpdag"
            st.violation("skeleton_to_pdag", kind, case, {"directed": sorted(dire), "undirected": sorted(map(sorted, und))},
                         {"directed": sorted(d), "undirected": sorted(map(sorted, u)), "sepsets": {str(sorted(k)): v for k, v in seps.items()}})


ORDERS5 = [(0, 1, 2, 3, 4), (4, 3, 2, 1, 0), (2, 0, 4, 1, 3), (1, 3, 0, 4, 2)]
ORDERS6 = [(0, 1, 2, 3, 4, 5), (5, 4, 3, 2, 1, 0), (2, 0, 4, 1, 5, 3), (3, 5, 1, 4, 0, 2)]
PAIRS6 = list(combinations(range(6), 2))


def _s2p6(st, code, only_order=None):
    import networkx as nx

    from pgmpy.estimators import PC

    n = 6
    edges = tuple(p for i, p in enumerate(PAIRS6) if code >> i & 1)
    g = G(n, edges)
    d, u = _cpdag_meek(n, edges)
    pairs = [(x, y) for x, y in combinations(range(n), 2) if frozenset((x, y)) not in g.skeleton()]
    seps = {}
    for x, y in pairs:
        for Z in subsets([v for v in range(n) if v not in (x, y)]):
            if not g.dconnected(x, y, set(Z)):
                seps[frozenset((x, y))] = tuple(Z)
                break
    st.states += 1
    if d and u:
        st.nt(code)
    for oi in range(len(ORDERS6)):
        if only_order is not None and oi != only_order:
            continue
        case = {"part": "s2p6", "n": 6, "code": code, "edges": [list(e) for e in edges], "order": oi}
        sk = nx.Graph()
        sk.add_nodes_from(ORDERS6[oi])
        sk.add_edges_from([tuple(sorted(e)) for e in g.skeleton()])
        st.evals += 1
        st.transitions += 1
        try:
            res = PC.skeleton_to_pdag(sk, seps)
        except Exception as ex:
            st.violation("skeleton_to_pdag", "exception", case, repr(ex)[:300])
            continue
        st.compared += 1
        und = {frozenset(e) for e in res.undirected_edges}
        dire = set(res.directed_edges)
        if dire != d or und != u:
            kind = "directed-cycle" if not is_acyclic(n, sorted(dire)) else "wrong-cpdag"
            st.violation("skeleton_to_pdag", kind, case, {"directed": sorted(dire), "undirected": sorted(map(sorted, und))},
                         {"directed": sorted(d), "undirected": sorted(map(sorted, u))})
        st.outcome((len(d), len(u)))


def _s2p5(st, edges, norders, only_order=None):
    import networkx as nx

    from pgmpy.estimators import PC

    n = 5
    g = G(n, edges)
    d, u, members = cpdag_of(n, edges)
    pairs = [(x, y) for x, y in combinations(range(n), 2) if frozenset((x, y)) not in g.skeleton()]
    seps = {}
    for x, y in pairs:
        for Z in subsets([v for v in range(n) if v not in (x, y)]):
            if not g.dconnected(x, y, set(Z)):
                seps[frozenset((x, y))] = tuple(Z)  # first = smallest separating set
                break
    st.states += 1
    if d and u:
        st.nt(edges)
    for oi in range(norders):
        if only_order is not None and oi != only_order:
            continue
        case = {"part": "s2p5", "n": 5, "edges": [list(e) for e in edges], "order": oi}
        sk = nx.Graph()
        sk.add_nodes_from(ORDERS5[oi])
        sk.add_edges_from([tuple(sorted(e)) for e in g.skeleton()])
        st.evals += 1
        st.transitions += 1
        try:
            res = PC.skeleton_to_pdag(sk, seps)
        except Exception as ex:
            st.violation("skeleton_to_pdag", "exception", case, repr(ex)[:300])
            continue
        st.compared += 1
        und = {frozenset(e) for e in res.undirected_edges}
        dire = set(res.directed_edges)
        if dire != d or und != u:
            kind = "directed-cycle" if not is_acyclic(n, sorted(dire)) else "wrong-cpdag"
            st.violation("skeleton_to_pdag", kind, case, {"directed": sorted(dire), "undirected": sorted(map(sorted, und))},
                         {"directed": sorted(d), "undirected": sorted(map(sorted, u))})
        st.outcome((len(d), len(u)))


# ------------------------------------------------------------------ PDAG.to_dag
def _decode(n, code):
    pairs = list(combinations(range(n), 2))
    directed, undirected = [], []
    for (a, b) in pairs:
        r = code % 4
        code //= 4
        if r == 1:
            directed.append((a, b))
        elif r == 2:
            directed.append((b, a))
        elif r == 3:
            undirected.append((a, b))
    return directed, undirected


def _pdag_vstructs(n, directed, undirected):
    adj = {frozenset(e) for e in directed} | {frozenset(e) for e in undirected}
    out = set()
    for c in range(n):
        pa = [a for a, b in directed if b == c]
        for a, b in combinations(sorted(pa), 2):
            if frozenset((a, b)) not in adj:
                out.add((frozenset((a, b)), c))
    return out


def _todag(st, n, code):
    from pgmpy.base import PDAG

    directed, undirected = _decode(n, code)
    skel = {frozenset(e) for e in directed} | {frozenset(e) for e in undirected}
    vs = _pdag_vstructs(n, directed, undirected)
    if n <= 4:
        ext = [e for e in all_dags(n) if G(n, e).skeleton() == skel and set(directed) <= set(e) and G(n, e).vstructs() == vs]
    else:
        # the same set, enumerated through the orientations of the undirected edges
        ext = []
        if is_acyclic(n, sorted(directed)) and len(skel) == len(directed) + len(undirected):
            for bits in product((0, 1), repeat=len(undirected)):
                e = tuple(sorted(list(directed) + [(a, b) if o == 0 else (b, a) for (a, b), o in zip(undirected, bits)]))
                if is_acyclic(n, e) and G(n, e).vstructs() == vs:
                    ext.append(e)
    if not ext:
        st.bump("pdag-not-extendable")
        return
    st.states += 1
    if undirected:
        st.nt(code)
    case = {"part": "todag", "n": n, "code": code, "directed": [list(e) for e in directed], "undirected": [list(e) for e in undirected]}
    for flip in (False, True):
        und = [(b, a) for a, b in undirected] if flip else undirected
        st.evals += 1
        st.transitions += 1
        try:
            p = PDAG(directed_ebunch=list(directed), undirected_ebunch=list(und))
            p.add_nodes_from(range(n))
            dag = p.to_dag()
            got = tuple(sorted(dag.edges()))
        except Exception as ex:
            st.violation("PDAG.to_dag", "exception", case, repr(ex)[:300])
            continue
        st.compared += 1
        if got not in ext:
            gg = G(n, got)
            why = ("cyclic" if not is_acyclic(n, got) else "skeleton changed" if gg.skeleton() != skel else
                   "directed edge lost" if not set(directed) <= set(got) else "new v-structure")
            st.violation("PDAG.to_dag", "not-a-consistent-extension", case, [list(e) for e in got], why)
        st.outcome(len(ext))
    if len(st.samples) < 1 and undirected and directed:
        st.sample(case)
