"""C08: d-separation answers vs the path-based definition (E1, graph only)."""
from itertools import combinations

from mc.build import NAME_SETS
from mc.gen.dags import all_dags, subsets
from mc.ref.graphs import G, usep
from mc.stats import Stats

EXPLORER = "E1"
RULE = ("E1: every labelled DAG up to the node bound x name style (ints incl. 0, single letters, multi-character strings) "
        "x class {DAG, BayesianNetwork} x latent subset x include_latents; every start node x every observed subset "
        "(given as list / set / tuple / single node) for active_trail_nodes and is_dconnected; get_independencies "
        "(soundness and coverage of every elementary statement), local_independencies, minimal_dseparator for every "
        "non-adjacent ordered pair, get_markov_blanket, moralize, get_ancestral_graph (every node subset); NaiveBayes "
        "overrides on all stars with <=3 features.  oracle: enumeration of all simple trails. non-trivial = distinct "
        "(graph, start, observed) where observing changes the reachable set")
BOUNDS = {"quick": "all DAGs n<=4 (572), 3 name styles, 2 classes, latent subsets of size<=2 (all subsets for n<=3)",
          "thorough": "quick + all 29281 DAGs on 5 nodes (int names, DAG class, latent subsets of size<=1) + all 32768 order-respecting DAGs on 6 nodes"}
EXHAUSTIVE = {"quick": True, "thorough": True}
ASSUMPTIONS = ["start node not in the observed set (the definition leaves that case open)",
               "node names are ints or strings (tuples are ambiguous with 'list of nodes' arguments)"]

STYLES = ["int", "str", "multi"]


def groups(tier, seed):
    out = []
    for n in (1, 2, 3, 4):
        dags = all_dags(n)
        for i in range(0, len(dags), 12):
            for style in STYLES:
                for cls in ("DAG", "BN"):
                    out.append({"n": n, "lo": i, "hi": min(i + 12, len(dags)), "style": style, "cls": cls})
    out.append({"nb": True})
    if tier == "thorough":
        m = 29281
        for i in range(0, m, 300):
            out.append({"n": 5, "lo": i, "hi": min(i + 300, m), "style": "int", "cls": "DAG"})
        # six nodes: every DAG whose edges respect 0<1<..<5 (2^15 edge sets: every unlabelled 6-node DAG in some labelling)
        for i in range(0, 1 << 15, 128):
            out.append({"n": 6, "lo": i, "hi": i + 128, "style": "int", "cls": "DAG", "codes": True})
    return out


_D5 = None


def _dags(n):
    global _D5
    if n == 5:
        if _D5 is None:
            _D5 = all_dags(5)
        return _D5
    return all_dags(n)


def mk(cls, n, edges, names, latents=()):
    if cls == "DAG":
        from pgmpy.base import DAG as C
    else:
        from pgmpy.models import BayesianNetwork as C
    g = C()
    for v in range(n):
        g.add_node(names[v], latent=(v in latents))
    g.add_edges_from([(names[a], names[b]) for a, b in edges])
    return g


def run_group(g, tier):
    st = Stats()
    if g.get("nb"):
        _naive(st)
        return st
    n = g["n"]
    if g.get("codes"):
        from itertools import combinations

        p6 = list(combinations(range(6), 2))
        for code in range(g["lo"], g["hi"]):
            _one(st, {"n": 6, "edges": [list(p) for i, p in enumerate(p6) if code >> i & 1], "style": g["style"], "cls": g["cls"], "latents": []})
        return st
    dags = _dags(n)
    for i in range(g["lo"], g["hi"]):
        edges = dags[i]
        lat_sets = list(subsets(range(n), None if n <= 3 else 2))
        if n == 5:
            lat_sets = lat_sets[:1] + ([lat_sets[1 + i % 5]] if i % 7 == 0 else [])
        for lat in lat_sets:
            case = {"n": n, "edges": [list(e) for e in edges], "style": g["style"], "cls": g["cls"], "latents": list(lat)}
            _one(st, case)
    return st


def replay(case):
    st = Stats()
    if case.get("nb"):
        _naive(st)
    else:
        _one(st, {k: case[k] for k in ("n", "edges", "style", "cls", "latents")})
    want = case.get("site")
    return [v for v in st.violations if want is None or v["site"] == want][:5]


def _one(st, base):
    n, edges, style, cls, lat = base["n"], [tuple(e) for e in base["edges"]], base["style"], base["cls"], set(base["latents"])
    names = NAME_SETS[style][:n]
    idx = {nm: i for i, nm in enumerate(names)}
    ref = G(n, edges)
    try:
        dag = mk(cls, n, edges, names, lat)
    except Exception as ex:
        st.violation("construct", "exception", base, repr(ex)[:200])
        return
    st.states += 1
    nm = lambda vs: {names[v] for v in vs}

    def viol(site, kind, extra, obs=None, exp=None):
        c = dict(base)
        c["site"] = site
        c.update(extra)
        st.violation(site, kind, c, obs, exp)

    V = list(range(n))
    first = True
    for x in V:
        base_reach = ref.reachable(x, set())
        for Z in subsets([v for v in V if v != x]):
            Zs = set(Z)
            reach = ref.reachable(x, Zs)
            if reach != base_reach - Zs:
                st.nt((tuple(edges), x, Z))
            forms = [("list", [names[v] for v in Z]), ("set", {names[v] for v in Z}), ("tuple", tuple(names[v] for v in Z))]
            if len(Z) == 1:
                forms.append(("single", names[Z[0]]))
            if not Z:
                forms.append(("none", None))
            for incl in (False, True):
                exp = nm(reach if incl else reach - lat)
                for fname, obs in forms:
                    st.evals += 1
                    st.transitions += 1
                    try:
                        got = dag.active_trail_nodes(names[x], observed=obs, include_latents=incl)
                        got = got[names[x]]
                    except Exception as ex:
                        viol("active_trail_nodes", "exception", {"x": x, "Z": list(Z), "form": fname, "incl": incl}, repr(ex)[:200])
                        continue
                    st.compared += 1
                    if set(got) != exp:
                        viol("active_trail_nodes", "wrong-set", {"x": x, "Z": list(Z), "form": fname, "incl": incl},
                             sorted(map(str, got)), sorted(map(str, exp)))
                    else:
                        st.outcome((len(exp), len(Z)))
            if first:
                st.sample({"case": base, "x": x, "Z": list(Z), "expected_reachable": sorted(reach)})
                first = False
            # is_dconnected
            for y in V:
                if y == x or y in Zs or y in lat:
                    continue  # is_dconnected documents latents as excluded from active-trail results
                exp = ref.dconnected(x, y, Zs)
                for obs in ([names[v] for v in Z], (names[Z[0]] if len(Z) == 1 else None)):
                    if obs is None and Z:
                        continue
                    st.evals += 1
                    st.transitions += 1
                    try:
                        got = dag.is_dconnected(names[x], names[y], observed=obs)
                    except Exception as ex:
                        viol("is_dconnected", "exception", {"x": x, "y": y, "Z": list(Z)}, repr(ex)[:200])
                        continue
                    st.compared += 1
                    if bool(got) != exp:
                        viol("is_dconnected", "wrong-verdict", {"x": x, "y": y, "Z": list(Z), "single": not isinstance(obs, list)}, bool(got), exp)
    # list of starts
    if n >= 2:
        for Z in subsets(V[2:]):
            st.evals += 1
            try:
                got = dag.active_trail_nodes([names[0], names[1]], observed=[names[v] for v in Z], include_latents=True)
                st.compared += 1
                for x in (0, 1):
                    if set(got[names[x]]) != nm(ref.reachable(x, set(Z))):
                        viol("active_trail_nodes", "wrong-set", {"x": x, "Z": list(Z), "form": "starts-list", "incl": True},
                             sorted(map(str, got[names[x]])), sorted(map(str, nm(ref.reachable(x, set(Z))))))
            except Exception as ex:
                viol("active_trail_nodes", "exception", {"x": [0, 1], "Z": list(Z), "form": "starts-list"}, repr(ex)[:200])
    _indeps(st, dag, ref, names, idx, lat, viol)
    _structure(st, dag, ref, names, idx, lat, viol, cls)


def _indeps(st, dag, ref, names, idx, lat, viol):
    n = ref.n
    for incl in (False, True):
        allowed = set(range(n)) if incl else set(range(n)) - lat
        st.evals += 1
        st.transitions += 1
        try:
            ind = dag.get_independencies(include_latents=incl)
            asserts = ind.get_assertions()
        except Exception as ex:
            viol("get_independencies", "exception", {"incl": incl}, repr(ex)[:200])
            continue
        covered = set()
        for a in asserts:
            X, Y, Z = ({idx[v] for v in a.event1}, {idx[v] for v in a.event2}, {idx[v] for v in a.event3})
            st.compared += 1
            if not (X | Y | Z) <= allowed or (X & Y) or (X & Z) or (Y & Z) or not X or not Y:
                viol("get_independencies", "malformed", {"incl": incl}, str(a))
                continue
            if not ref.dsep_sets(X, Y, Z):
                viol("get_independencies", "unsound", {"incl": incl}, str(a))
            for x in X:
                for y in Y:
                    covered.add((x, y, frozenset(Z)))
                    covered.add((y, x, frozenset(Z)))
        for x in allowed:
            for y in allowed:
                if x >= y:
                    continue
                for Z in subsets(sorted(allowed - {x, y})):
                    st.compared += 1
                    if not ref.dconnected(x, y, set(Z)) and (x, y, frozenset(Z)) not in covered:
                        viol("get_independencies", "missing", {"incl": incl, "x": x, "y": y, "Z": list(Z)}, None, f"{x} _|_ {y} | {Z}")
    # local independencies
    for v in list(range(n)) + ["all"]:
        st.evals += 1
        st.transitions += 1
        try:
            li = dag.local_independencies([names[i] for i in range(n)] if v == "all" else names[v])
            got = {(frozenset(idx[a] for a in s.event1), frozenset(idx[a] for a in s.event2), frozenset(idx[a] for a in s.event3))
                   for s in li.get_assertions()}
        except Exception as ex:
            viol("local_independencies", "exception", {"v": v}, repr(ex)[:200])
            continue
        exp = set()
        for w in (range(n) if v == "all" else [v]):
            nd = set(range(n)) - ref.desc(w) - ref.pa[w]
            if nd:
                exp.add((frozenset([w]), frozenset(nd), frozenset(ref.pa[w])))
        st.compared += 1
        if got != exp:
            viol("local_independencies", "wrong-set", {"v": v}, str(sorted(map(str, got))), str(sorted(map(str, exp))))
        for X, Y, Z in got:
            if not ref.dsep_sets(X, Y, Z):
                viol("local_independencies", "unsound", {"v": v}, str((X, Y, Z)))


def _structure(st, dag, ref, names, idx, lat, viol, cls):
    n = ref.n
    V = range(n)
    # moralize
    st.evals += 1
    st.transitions += 1
    try:
        mg = dag.moralize()
        got = {frozenset((idx[a], idx[b])) for a, b in mg.edges()}
        st.compared += 1
        if got != ref.moral_edges() or {idx[x] for x in mg.nodes()} != set(V):
            viol("moralize", "wrong-graph", {}, sorted(map(sorted, got)), sorted(map(sorted, ref.moral_edges())))
    except Exception as ex:
        viol("moralize", "exception", {}, repr(ex)[:200])
    # ancestral graph for every node subset + separation in its moral graph == d-separation
    for S in subsets(V):
        if not S:
            continue
        st.evals += 1
        st.transitions += 1
        try:
            ag = dag.get_ancestral_graph([names[v] for v in S])
            gn = {idx[x] for x in ag.nodes()}
            ge = {(idx[a], idx[b]) for a, b in ag.edges()}
        except Exception as ex:
            viol("get_ancestral_graph", "exception", {"S": list(S)}, repr(ex)[:200])
            continue
        an = ref.anc(S)
        st.compared += 1
        if gn != an or ge != {e for e in ref.edges if e[0] in an and e[1] in an}:
            viol("get_ancestral_graph", "wrong-graph", {"S": list(S)}, [sorted(gn), sorted(ge)], sorted(an))
            continue
        if len(S) >= 2:
            try:
                me = {frozenset((idx[a], idx[b])) for a, b in ag.moralize().edges()}
            except Exception as ex:
                viol("moralize", "exception", {"S": list(S)}, repr(ex)[:200])
                continue
            x, y = S[0], S[1]
            Z = set(S[2:])
            st.compared += 1
            if usep(n, me, x, y, Z) != (not ref.dconnected(x, y, Z)):
                viol("moralize", "separation-mismatch", {"S": list(S)}, usep(n, me, x, y, Z), not ref.dconnected(x, y, Z))
    # markov blanket
    for v in V:
        st.evals += 1
        st.transitions += 1
        try:
            mb = {idx[a] for a in dag.get_markov_blanket(names[v])}
        except Exception as ex:
            viol("get_markov_blanket", "exception", {"v": v}, repr(ex)[:200])
            continue
        st.compared += 1
        rest = set(V) - mb - {v}
        if mb != ref.markov_blanket(v) or not ref.dsep_sets({v}, rest, mb):
            viol("get_markov_blanket", "wrong-set", {"v": v}, sorted(mb), sorted(ref.markov_blanket(v)))
    # minimal d-separator
    for x in V:
        for y in V:
            if x == y or y in ref.adj[x]:
                continue
            st.evals += 1
            st.transitions += 1
            try:
                S = dag.minimal_dseparator(names[x], names[y])
            except Exception as ex:
                viol("minimal_dseparator", "exception", {"x": x, "y": y}, repr(ex)[:200])
                continue
            st.compared += 1
            if S is None:
                if not lat:
                    viol("minimal_dseparator", "none-without-latents", {"x": x, "y": y}, None, "a separator exists")
                continue
            S = {idx[a] for a in S}
            bad = None
            if S & lat:
                bad = "contains latent"
            elif x in S or y in S:
                bad = "contains endpoint"
            elif ref.dconnected(x, y, S):
                bad = "does not separate"
            else:
                for u in S:
                    if not ref.dconnected(x, y, S - {u}):
                        bad = f"not minimal: {u} removable"
            if bad:
                viol("minimal_dseparator", "wrong-separator", {"x": x, "y": y}, sorted(S), bad)


def _naive(st):
    from pgmpy.models import NaiveBayes

    for style in STYLES:
        for k in (1, 2, 3):
            names = NAME_SETS[style][:k + 1]
            for dep_i in range(k + 1):
                dep = names[dep_i]
                feats = [x for x in names if x != dep]
                order = [dep] + feats
                edges = [(0, i + 1) for i in range(k)]
                ref = G(k + 1, edges)
                base = {"nb": True, "style": style, "k": k, "dep": dep_i}
                try:
                    nb = NaiveBayes(feature_vars=feats, dependent_var=dep)
                except Exception as ex:
                    st.violation("NaiveBayes", "exception", dict(base, site="NaiveBayes"), repr(ex)[:200])
                    continue
                st.states += 1
                for x in range(k + 1):
                    for Z in subsets([v for v in range(k + 1) if v != x]):
                        exp = {order[v] for v in ref.reachable(x, set(Z))}
                        st.evals += 1
                        st.transitions += 1
                        c = dict(base, site="NaiveBayes.active_trail_nodes", x=x, Z=list(Z))
                        try:
                            got = nb.active_trail_nodes(order[x], observed=[order[v] for v in Z])
                            if isinstance(got, dict):
                                got = got[order[x]]
                        except Exception as ex:
                            st.violation("NaiveBayes.active_trail_nodes", "exception", c, repr(ex)[:200])
                            continue
                        st.compared += 1
                        if set(got) != exp:
                            st.violation("NaiveBayes.active_trail_nodes", "wrong-set", c, sorted(map(str, got)), sorted(map(str, exp)))
                for v in range(k + 1):
                    st.evals += 1
                    c = dict(base, site="NaiveBayes.local_independencies", v=v)
                    try:
                        li = nb.local_independencies(order[v])
                        for s in li.get_assertions():
                            X = {order.index(a) for a in s.event1}
                            Y = {order.index(a) for a in s.event2}
                            Zz = {order.index(a) for a in s.event3}
                            st.compared += 1
                            if not ref.dsep_sets(X, Y, Zz):
                                st.violation("NaiveBayes.local_independencies", "unsound", c, str(s))
                        nd = set(range(k + 1)) - ref.desc(v) - ref.pa[v]
                        if nd and not li.get_assertions():
                            st.violation("NaiveBayes.local_independencies", "missing", c, None, str(nd))
                    except Exception as ex:
                        st.violation("NaiveBayes.local_independencies", "exception", c, repr(ex)[:200])
