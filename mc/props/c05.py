"""C05: CPD tables keep their column meaning; validated models are normalised (E1)."""
from fractions import Fraction as F
from itertools import permutations, product

import numpy as np

from mc.build import Labeling, cmp_named, cpd_matrix, make_bn, make_cpd, named_table, ref_named, tbl_json
from mc.gen.dags import all_dags, subsets
from mc.gen.tables import bn_from_desc
from mc.ref.discrete import RefFactor, assignments
from mc.stats import Stats

EXPLORER = "E1"
RULE = ("E1: (a) every child cardinality {1,2,3} x every parent-cardinality vector (0-3 parents, cards {1,2,3}, <=18 columns) x "
        "state-name styles, fingerprint tables: constructor column meaning, get_values, to_factor, copy, normalize, "
        "reorder_parents (every permutation, in/out of place), marginalize (every parent subset), reduce (every partial parent "
        "assignment); (b) validity boundary: column sum 1+d for d in {0,+-0.005,+-0.009,+-0.011,+-0.02} in every column "
        "position; (c) check_model on every BN on <=3 nodes with CPDs right or wrong in exactly one respect. "
        "non-trivial = distinct (shape, op, argument) cases with >=2 parents or a non-default style, and every defective model")
BOUNDS = {"quick": "as RULE; styles: all 6 on shapes with <=2 parents, def+str on 3 parents",
          "thorough": "all 6 styles on all shapes; adds shapes with 4 parents (<=36 columns) and 4-state child / parents; check_model defects on all 25 3-node DAGs x 2 cardinality vectors and all 543 4-node DAGs"}
EXHAUSTIVE = {"quick": True, "thorough": True}
ASSUMPTIONS = ["CPD marginalize/reduce renormalise columns (documented)", "validity tolerance 0.01 (documented); knife-edge sums are not used"]

STYLES = ["def", "str", "rot", "shift", "tuple", "mixed"]


def shapes(tier="quick"):
    out = []
    for cc in (1, 2, 3):
        for k in range(0, 4):
            for pc in product((1, 2, 3), repeat=k):
                if int(np.prod(pc)) <= 18:
                    out.append((cc,) + pc)
    if tier == "thorough":
        # four parents (<=36 columns), a four-state child, a four-state parent
        for cc in (2, 3):
            for pc in product((1, 2, 3), repeat=4):
                if int(np.prod(pc)) <= 36:
                    out.append((cc,) + pc)
        for k in range(0, 4):
            for pc in product((2, 3, 4), repeat=k):
                if int(np.prod(pc)) <= 24:
                    out.append((4,) + pc)
                    if 4 in pc:
                        out.append((2,) + pc)
    return out


def groups(tier, seed):
    out = []
    for sh in shapes(tier):
        for stl in STYLES:
            if tier == "quick" and len(sh) == 4 and stl not in ("def", "str"):
                continue
            if len(sh) == 5 and stl not in ("def", "str", "mixed"):
                continue
            out.append({"part": "cpd", "shape": list(sh), "style": stl})
    for sh in ((2,), (2, 2), (3, 2, 2), (2, 3), (2, 2, 3)):
        out.append({"part": "valid", "shape": list(sh)})
    for n in (1, 2, 3):
        for e in all_dags(n):
            for cv in ([(2,) * n, (2, 3, 2)[:n]] if tier == "thorough" or n < 3 else [(2, 3, 2)]):
                out.append({"part": "model", "n": n, "edges": [list(x) for x in e], "card": list(cv)})
    if tier == "thorough":
        for e in all_dags(4):
            out.append({"part": "model", "n": 4, "edges": [list(x) for x in e], "card": [2, 3, 2, 2]})
    return out


def star(shape, salt=0):
    """reference network: node 0 = child, nodes 1..k = parents (roots)"""
    k = len(shape) - 1
    d = {"n": k + 1, "edges": [[p, 0] for p in range(1, k + 1)], "card": list(shape), "cols": {"fp": 1}, "salt": salt}
    return bn_from_desc(d)


def run_group(g, tier):
    st = Stats()
    if g["part"] == "cpd":
        _cpd(st, g)
    elif g["part"] == "valid":
        _valid(st, g)
    else:
        _model(st, g)
    return st


def replay(case):
    st = Stats()
    g = case["g"]
    run = {"cpd": _cpd, "valid": _valid, "model": _model}[g["part"]]
    run(st, g)
    keys = ("site", "node", "defect", "col", "delta", "order", "new", "sub", "ev")
    return [v for v in st.violations if all(v["case"].get(k) == case.get(k) for k in keys)][:5]


def colnorm(rf, child):
    """normalise a RefFactor over [child]+parents per parent configuration"""
    pa = [v for v in rf.vars if v != child]
    z = rf.marginalize({child})
    t = {}
    for k, val in rf.table.items():
        a = dict(zip(rf.vars, k))
        t[k] = val / z.get(a)
    return RefFactor(rf.vars, rf.card, t)


def _cpd(st, g):
    shape, style = g["shape"], g["style"]
    ref = star(shape)
    k = len(shape) - 1
    lab = Labeling(k + 1, ref.card, "str", None, style)
    base_rf = ref.cpd_factor(0)
    st.states += 1

    def viol(site, kind, obs=None, exp=None, **extra):
        st.violation(site, kind, {"g": g, "site": site, "kind": kind, **extra}, obs, exp)

    def check(site, cpd, rf, parents_order=None, **extra):
        """cpd (pgmpy) must encode rf (RefFactor over child+parents) and keep every state-name list"""
        st.evals += 1
        st.compared += 1
        try:
            d = cmp_named(named_table(cpd), ref_named(rf, lab))
            if d is None:
                d = cmp_named(named_table(cpd.to_factor()), ref_named(rf, lab))
            if d is None:
                for v in rf.vars:
                    if list(cpd.state_names[lab.name(v)]) != list(lab.states[v]):
                        d = f"state names of {lab.name(v)!r} became {cpd.state_names[lab.name(v)]}"
            if d is None and parents_order is not None:
                if list(cpd.variables) != [lab.name(0)] + [lab.name(p) for p in parents_order]:
                    d = f"variables {cpd.variables}"
                m = np.asarray(cpd.get_values(), dtype=float)
                expm, _ = cpd_matrix(_as_ref(rf, ref), 0, parents_order)
                if m.shape != expm.shape or np.abs(m - expm).max() > 1e-9:
                    d = "get_values() columns are not in row-major order of the evidence list"
            if d is None and cpd.variable != lab.name(0):
                d = "variable attribute"
        except Exception as ex:
            d = "exception while reading the result: " + repr(ex)[:200]
        if d is not None:
            viol(site, "wrong-cpd", None, d, **extra)
            return False
        return True

    parents = list(range(1, k + 1))
    if k >= 2 or style != "def":
        st.nt(("shape", tuple(shape), style))
    # constructor under every declared evidence order
    for po in permutations(parents):
        try:
            cpd = make_cpd(ref, 0, lab, list(po))
        except Exception as ex:
            viol("TabularCPD", "exception", repr(ex)[:200], None, order=list(po))
            continue
        st.transitions += 1
        check("TabularCPD", cpd, base_rf, list(po), order=list(po))
        # column j <-> j-th parent configuration (direct index arithmetic, independent of cpd_matrix)
        m = np.asarray(cpd.get_values(), dtype=float)
        for j, conf in enumerate(product(*[range(ref.card[p]) for p in po])):
            a = dict(zip(po, conf))
            col = ref.cpt[0][tuple(a[p] for p in ref.parents[0])]
            st.compared += 1
            if any(abs(m[s, j] - float(col[s])) > 1e-12 for s in range(shape[0])):
                viol("TabularCPD.get_values", "wrong-column", m[:, j].tolist(), [float(x) for x in col], order=list(po), column=j)
                break
        # copy
        cp = cpd.copy()
        st.transitions += 1
        check("copy", cp, base_rf, list(po), order=list(po))
        try:
            cp.values += 1.0
        except Exception:
            pass
        check("copy(aliasing)", cpd, base_rf, list(po), order=list(po))
        # reorder_parents
        if k >= 1:
            for no in permutations(po):
                for inplace in (True, False):
                    c2 = make_cpd(ref, 0, lab, list(po))
                    site = f"reorder_parents(inplace={inplace})"
                    try:
                        ret = c2.reorder_parents([lab.name(p) for p in no], inplace=inplace)
                    except Exception as ex:
                        viol(site, "exception", repr(ex)[:200], None, order=list(po), new=list(no))
                        continue
                    st.transitions += 1
                    expm, _ = cpd_matrix(ref, 0, list(no))
                    st.compared += 1
                    if np.asarray(ret, dtype=float).shape != expm.shape or np.abs(np.asarray(ret, dtype=float) - expm).max() > 1e-9:
                        viol(site, "wrong-table", np.asarray(ret).tolist(), expm.tolist(), order=list(po), new=list(no))
                    check(site, c2, base_rf, list(no) if inplace else list(po), order=list(po), new=list(no))
        # marginalize every non-empty parent subset
        for sub in subsets(po):
            if not sub:
                continue
            exp = colnorm(base_rf.marginalize(set(sub)), 0)
            for inplace in (True, False):
                c2 = make_cpd(ref, 0, lab, list(po))
                site = f"marginalize(inplace={inplace})"
                try:
                    r = c2.marginalize([lab.name(p) for p in sub], inplace=inplace)
                except Exception as ex:
                    viol(site, "exception", repr(ex)[:200], None, order=list(po), sub=list(sub))
                    continue
                st.transitions += 1
                check(site, c2 if inplace else r, exp, [p for p in po if p not in sub], order=list(po), sub=list(sub))
                if not inplace:
                    check(site + "(operand)", c2, base_rf, list(po), order=list(po), sub=list(sub))
        # reduce every partial parent assignment
        for sub in subsets(po):
            if not sub:
                continue
            for stt in assignments([ref.card[p] for p in sub]):
                ev = dict(zip(sub, stt))
                exp = colnorm(base_rf.reduce(ev), 0)
                for inplace in (True, False):
                    c2 = make_cpd(ref, 0, lab, list(po))
                    site = f"reduce(inplace={inplace})"
                    try:
                        r = c2.reduce([(lab.name(p), lab.state(p, s)) for p, s in ev.items()], inplace=inplace)
                    except Exception as ex:
                        viol(site, "exception", repr(ex)[:200], None, order=list(po), ev=[list(x) for x in ev.items()])
                        continue
                    st.transitions += 1
                    check(site, c2 if inplace else r, exp, [p for p in po if p not in sub], order=list(po), ev=[list(x) for x in ev.items()])
                    if not inplace:
                        check(site + "(operand)", c2, base_rf, list(po), order=list(po))
        # normalize an unnormalised table (column j scaled by j+2)
        from pgmpy.factors.discrete import TabularCPD

        m, _ = cpd_matrix(ref, 0, list(po))
        scaled = m * (np.arange(m.shape[1]) + 2.0)
        kw = {"state_names": lab.state_names_arg([0] + list(po))} if style != "def" else {}
        if po:
            kw.update(evidence=[lab.name(p) for p in po], evidence_card=[ref.card[p] for p in po])
        for inplace in (True, False):
            c2 = TabularCPD(lab.name(0), shape[0], scaled, **kw)
            site = f"normalize(inplace={inplace})"
            try:
                r = c2.normalize(inplace=inplace)
            except Exception as ex:
                viol(site, "exception", repr(ex)[:200], None, order=list(po))
                continue
            st.transitions += 1
            check(site, c2 if inplace else r, base_rf, list(po), order=list(po))
    st.sample({"shape": shape, "style": style, "first_column": [str(x) for x in ref.cpt[0][tuple([0] * k)]]})


def _as_ref(rf, ref):
    """wrap a conditional RefFactor (child 0 first) as a RefBN-like object for cpd_matrix"""
    class R:
        pass
    r = R()
    pa = [v for v in rf.vars if v != 0]
    r.parents = {0: pa}
    r.card = ref.card
    r.cpt = {0: {}}
    for conf in product(*[range(ref.card[p]) for p in pa]):
        a = dict(zip(pa, conf))
        r.cpt[0][conf] = [rf.get({**a, 0: s}) for s in range(ref.card[0])]
    return r


def _valid(st, g):
    from pgmpy.factors.discrete import TabularCPD

    shape = g["shape"]
    ref = star(shape)
    k = len(shape) - 1
    lab = Labeling(k + 1, ref.card, "str", None, "def")
    m, pa = cpd_matrix(ref, 0)
    st.states += 1
    for j in range(m.shape[1]):
        for d in (0.0, 0.005, -0.005, 0.009, -0.009, 0.011, -0.011, 0.02, -0.02):
            mm = m.copy()
            mm[0, j] += d
            if mm[0, j] < 0:
                continue
            kw = dict(evidence=[lab.name(p) for p in pa], evidence_card=[ref.card[p] for p in pa]) if pa else {}
            cpd = TabularCPD(lab.name(0), shape[0], mm, **kw)
            exp = abs(d) <= 0.01
            st.evals += 1
            st.transitions += 1
            st.compared += 1
            st.nt((tuple(shape), j, d))
            try:
                got = bool(cpd.is_valid_cpd())
            except Exception as ex:
                st.violation("is_valid_cpd", "exception", {"g": g, "site": "is_valid_cpd", "kind": "exception", "col": j, "delta": d}, repr(ex)[:200])
                continue
            if got != exp:
                st.violation("is_valid_cpd", "wrong-verdict", {"g": g, "site": "is_valid_cpd", "kind": "wrong-verdict", "col": j, "delta": d}, got, exp)
            st.outcome(int(got))
            # normalize (also the last step of reduce): every column becomes the original column divided by its sum, however
            # close to 1 that sum already was
            for site, fn in (("normalize", lambda c: c.normalize(inplace=False)),
                             ("reduce", (lambda c: c.reduce([(lab.name(pa[0]), 0)], inplace=False)) if pa else None)):
                if fn is None:
                    continue
                st.evals += 1
                st.transitions += 1
                case = {"g": g, "site": site + "(near-normalised)", "kind": "wrong-table", "col": j, "delta": d}
                try:
                    out = np.asarray(fn(TabularCPD(lab.name(0), shape[0], mm, **kw)).get_values(), dtype=float)
                except Exception as ex:
                    st.violation(site + "(near-normalised)", "exception", dict(case, kind="exception"), repr(ex)[:200])
                    continue
                st.compared += 1
                if site == "normalize":
                    want = mm / mm.sum(axis=0, keepdims=True)
                else:
                    stride = int(np.prod([ref.card[p] for p in pa[1:]])) if len(pa) > 1 else 1
                    sub = mm[:, :stride]          # first parent is the slowest-varying axis: its state 0 owns the first block of columns
                    want = sub / sub.sum(axis=0, keepdims=True)
                if out.shape != want.shape or np.abs(out - want).max() > 1e-9:
                    st.violation(site + "(near-normalised)", "wrong-table", case, out.tolist(), want.tolist())


DEFECTS = ["none", "missing-cpd", "extra-parent", "missing-parent", "renamed-parent", "parent-card", "parent-states-permuted",
           "parent-states-renamed", "column-off-0.02", "column-off-0.005", "parent-order-permuted"]


def _model(st, g):
    from pgmpy.factors.discrete import TabularCPD
    from pgmpy.models import BayesianNetwork

    n, edges, card = g["n"], [tuple(e) for e in g["edges"]], g["card"]
    ref = bn_from_desc({"n": n, "edges": g["edges"], "card": card, "cols": {"fp": 2}})
    lab = Labeling(n, ref.card, "str", None, "str")
    st.states += 1
    for v in range(n):
        for defect in DEFECTS:
            case = {"g": g, "site": "check_model", "node": v, "defect": defect}
            pa = list(ref.parents[v])
            others = [x for x in range(n) if x != v and x not in pa]
            m, _ = cpd_matrix(ref, v)
            names = [lab.name(p) for p in pa]
            cards = [ref.card[p] for p in pa]
            sn = {lab.name(x): list(lab.states[x]) for x in [v] + pa}
            expect_ok = True
            skip = False
            if defect == "missing-cpd":
                expect_ok = False
            elif defect == "extra-parent":
                if not others:
                    continue
                o = others[0]
                names, cards = names + [lab.name(o)], cards + [ref.card[o]]
                sn[lab.name(o)] = list(lab.states[o])
                m = np.repeat(m, ref.card[o], axis=1)
                expect_ok = False
            elif defect == "missing-parent":
                if not pa:
                    continue
                keep = pa[1:]
                names, cards = [lab.name(p) for p in keep], [ref.card[p] for p in keep]
                sn.pop(lab.name(pa[0]))
                m = m[:, :int(np.prod(cards)) if cards else 1]
                expect_ok = False
            elif defect == "renamed-parent":
                if not pa:
                    continue
                sn["ZZ"] = sn.pop(names[0])
                names = ["ZZ"] + names[1:]
                expect_ok = False  # add_cpds itself must refuse (unknown variable) or check_model must
            elif defect == "parent-card":
                if not pa:
                    continue
                cards = [cards[0] + 1] + cards[1:]
                sn[names[0]] = sn[names[0]] + ["extra"]
                reps = m.reshape([m.shape[0]] + [ref.card[p] for p in pa])
                reps = np.concatenate([reps, reps.take([0], axis=1)], axis=1)
                m = reps.reshape(m.shape[0], -1)
                expect_ok = False
            elif defect == "parent-states-permuted":
                if not pa or ref.card[pa[0]] < 2:
                    continue
                sn[names[0]] = sn[names[0]][::-1]
                expect_ok = False
            elif defect == "parent-states-renamed":
                if not pa:
                    continue
                sn[names[0]] = ["q" + str(i) for i in range(ref.card[pa[0]])]
                expect_ok = False
            elif defect == "column-off-0.02":
                m = m.copy()
                m[0, -1] += 0.02
                expect_ok = False
            elif defect == "column-off-0.005":
                m = m.copy()
                m[0, -1] += 0.005
                expect_ok = True
            elif defect == "parent-order-permuted":
                if len(pa) < 2:
                    continue
                po = pa[::-1]
                m, _ = cpd_matrix(ref, v, po)
                names, cards = [lab.name(p) for p in po], [ref.card[p] for p in po]
                expect_ok = True
            bn = BayesianNetwork()
            bn.add_nodes_from([lab.name(x) for x in range(n)])
            bn.add_edges_from([(lab.name(a), lab.name(b)) for a, b in edges])
            st.evals += 1
            st.transitions += 1
            st.nt((v, defect))
            try:
                for x in range(n):
                    if x != v:
                        bn.add_cpds(make_cpd(ref, x, lab))
                if defect != "missing-cpd":
                    kw = dict(evidence=names, evidence_card=cards) if names else {}
                    bn.add_cpds(TabularCPD(lab.name(v), ref.card[v], m, state_names=sn, **kw))
                ok = bool(bn.check_model())
                err = None
            except Exception as ex:
                ok, err = False, repr(ex)[:160]
            st.compared += 1
            if ok != expect_ok:
                st.violation("check_model", "wrong-verdict", case, {"accepted": ok, "error": err}, {"accepted": expect_ok})
                continue
            if ok:
                # accepted => parents = graph parents, consistent cards/state names, joint sums to 1 within n*0.01
                tot = 0.0
                for k_ in product(*[range(ref.card[x]) for x in range(n)]):
                    tot += float(bn.get_state_probability({lab.name(x): lab.state(x, s) for x, s in enumerate(k_)}))
                st.compared += 1
                bad = None
                if abs(tot - 1) > n * 0.01 + 1e-9:
                    bad = f"joint sums to {tot}"
                for c in bn.get_cpds():
                    if set(c.variables[1:]) != set(bn.get_parents(c.variable)):
                        bad = "accepted CPD parents differ from graph parents"
                if defect in ("none", "parent-order-permuted") and bad is None:
                    for k_ in product(*[range(ref.card[x]) for x in range(n)]):
                        a = dict(enumerate(k_))
                        e = float(ref.joint().get(a))
                        gq = float(bn.get_state_probability({lab.name(x): lab.state(x, s) for x, s in a.items()}))
                        if abs(gq - e) > 1e-9:
                            bad = f"get_state_probability {gq} != {e} at {a}"
                            break
                if bad:
                    st.violation("check_model", "accepted-model-inconsistent", case, bad, None)
    st.sample({"model": g, "defects": DEFECTS})
