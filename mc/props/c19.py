"""C19: conditional-independence tests compute the statistic they document (E1)."""
import math
from itertools import combinations_with_replacement, permutations, product

import numpy as np

from mc.stats import Stats

EXPLORER = "E1"
RULE = ("E1 discrete: every multiset of <=k rows over (X,Y,Z1[,Z2]) plus exactly independent (outer-product) tables and sparse "
        "strata; int and categorical columns; chi_square, g_sq, log_likelihood, modified_log_likelihood, power_divergence with "
        "lambda in {pearson, 0, 2/3, -1/2, -1, -2}; |Z| in {0,1,2}; alpha in {0.01,0.05,0.5}. oracle: own stratified "
        "power-divergence statistic (Yates correction at dof=1 as scipy's chi2_contingency, which the docs delegate to), pooled dof, "
        "p from scipy.stats.chi2.sf; relations: X<->Y symmetry, row order, Z order, independent => (0, p=1), boolean == (p>=alpha). "
        "E1 continuous: integer-valued 5-row frames built from a pool of column vectors, shifts {+1,-1,+10} and scales {2,1/2} of "
        "each variable: pearsonr with |Z| in {0,1,2} == Pearson on least-squares residuals with intercept, invariant under the "
        "affine maps. non-trivial = distinct data sets with >=2 non-degenerate strata, or a degenerate stratum, or a zero cell")
BOUNDS = {"quick": "domains (3,2,2): multisets of <=4 rows (1819); (2,2,2,2): <=3 rows (968); 60 independent tables; 18 heterogeneous tables (one dependent stratum among independent ones); continuous: 6^3 column triples + 120 with Z2",
          "thorough": "multisets of <=5 rows / <=4 rows; lambda grid on all; domains (3,3,2) and (2,2,3) with <=4 rows, (2,3,2,2) with <=3 rows"}
EXHAUSTIVE = {"quick": True, "thorough": True}
ASSUMPTIONS = ["scipy.stats.chi2.sf / t.sf and numpy.linalg.lstsq are trusted", "lambda<0 statistics are compared only on tables without zero cells (undefined otherwise)",
               "continuous frames with (numerically) zero residual variance are excluded (correlation undefined)"]

LAMBDAS = [("pearson", 1.0), ("log-likelihood", 0.0), (2.0 / 3, 2.0 / 3), ("freeman-tukey", -0.5), ("mod-log-likelihood", -1.0), ("neyman", -2.0),
           # the same exponents given as NUMBERS (0 and 1 are falsy / special-cased values)
           (0, 0.0), (1, 1.0), (0.0, 0.0), (-0.5, -0.5), (-1, -1.0), (-2.0, -2.0), ("cressie-read", 2.0 / 3)]


def groups(tier, seed):
    out = []
    doms = [((3, 2, 2), 4 if tier == "quick" else 5), ((2, 2, 2, 2), 3 if tier == "quick" else 4)]
    if tier == "thorough":
        doms += [((3, 3, 2), 4), ((2, 3, 2, 2), 3), ((2, 2, 3), 4)]
    for dom, k in doms:
        n = int(np.prod(dom))
        sets = []
        for r in range(1, k + 1):
            sets.extend(combinations_with_replacement(range(n), r))
        for i in range(0, len(sets), 60):
            out.append({"part": "disc", "dom": list(dom), "sets": [list(s) for s in sets[i:i + 60]]})
    out.append({"part": "indep"})
    out.append({"part": "hetero"})
    for i in range(6):
        out.append({"part": "cont", "xi": i})
    return out


def run_group(g, tier):
    st = Stats()
    if g["part"] == "disc":
        for s in g["sets"]:
            _disc(st, g["dom"], s)
    elif g["part"] == "indep":
        _indep(st)
    elif g["part"] == "hetero":
        _hetero(st)
    else:
        _cont(st, g["xi"])
    return st


def replay(case):
    st = Stats()
    if case["part"] == "disc":
        _disc(st, case["dom"], case["set"], cat=case.get("cat", False), table=case.get("table"))
    elif case["part"] == "indep":
        _indep(st)
    elif case["part"] == "hetero":
        _hetero(st)
    else:
        _cont(st, case["xi"])
    keys = ("site", "test", "Z", "variant", "cols")
    return [v for v in st.violations if all(v["case"].get(k) == case.get(k) for k in keys)][:5]


# ------------------------------------------------------------------ reference
def ref_stat(rows, xi, yi, zis, lam):
    """(statistic, dof, has_zero_cell, info) of the stratified power-divergence test"""
    strata = {}
    for r in rows:
        strata.setdefault(tuple(r[i] for i in zis), []).append(r)
    chi, dof, zero, nondeg = 0.0, 0, False, 0
    for z, rs in sorted(strata.items()):
        xs = sorted({r[xi] for r in rs})
        ys = sorted({r[yi] for r in rs})
        O = [[sum(1 for r in rs if r[xi] == a and r[yi] == b) for b in ys] for a in xs]
        n = len(rs)
        d = (len(xs) - 1) * (len(ys) - 1)
        if d == 0:
            continue
        nondeg += 1
        rt = [sum(row) for row in O]
        ct = [sum(O[i][j] for i in range(len(xs))) for j in range(len(ys))]
        s = 0.0
        for i in range(len(xs)):
            for j in range(len(ys)):
                e = rt[i] * ct[j] / n
                o = float(O[i][j])
                if d == 1:
                    # Yates' continuity correction, as scipy.stats.chi2_contingency(correction=True)
                    diff = e - o
                    o = o + math.copysign(min(0.5, abs(diff)), diff) if diff != 0 else o
                if o == 0:
                    zero = True
                if lam == 1.0:
                    s += (o - e) ** 2 / e
                elif lam == 0.0:
                    s += 2 * o * math.log(o / e) if o > 0 else 0.0
                elif lam == -1.0:
                    s += 2 * e * math.log(e / o) if o > 0 else float("inf")
                else:
                    if o > 0:
                        s += o * ((o / e) ** lam - 1) / (0.5 * lam * (lam + 1))
                    elif lam < 0:
                        s = float("nan")
        chi += s
        dof += d
    return chi, dof, zero, nondeg, len(strata)


def pval(chi, dof):
    from scipy import stats

    if dof == 0:
        return 1.0
    return float(stats.chi2.sf(chi, dof))


def _call(fn, **kw):
    try:
        return fn(**kw), None
    except Exception as ex:
        return None, repr(ex)[:200]


def _disc(st, dom, idxs, cat=False, table=None):
    import pandas as pd

    from pgmpy.estimators import CITests

    cols = ["X", "Y", "Z1", "Z2"][:len(dom)]
    allrows = list(product(*[range(c) for c in dom]))
    rows = [allrows[i] for i in idxs] if table is None else [tuple(r) for r in table]
    df = pd.DataFrame(rows, columns=cols)
    variant = "int"
    if cat or (sum(idxs) % 5 == 0 and table is None):
        variant = "cat"
        for c in cols:
            df[c] = pd.Categorical([f"{c.lower()}{v}" for v in df[c]])
    if sum(idxs) % 3 == 1:
        # the frame's index is not content: descending, gapped labels on every third data set
        df.index = [3 * (len(df) - i) + 2 for i in range(len(df))]
    st.states += 1
    zsets = [[], ["Z1"]] + ([["Z2"], ["Z1", "Z2"], ["Z2", "Z1"]] if len(dom) == 4 else [])
    base = {"part": "disc", "dom": list(dom), "set": list(idxs), "cat": variant == "cat", "variant": variant}
    if table is not None:
        base["table"] = [list(r) for r in rows]
    for Z in zsets:
        zis = [cols.index(z) for z in Z]
        for lname, lam in LAMBDAS:
            chi, dof, zero, nondeg, nstrata = ref_stat(rows, 0, 1, zis, lam)
            if lam < 0 and zero:
                continue
            if (lam not in (1.0, 0.0) or not isinstance(lname, str)) and (sum(idxs) + len(Z)) % 3 and table is None:
                continue  # the lambda grid beyond the named {pearson, G} is visited on every third data set (deterministic)
            p = pval(chi, dof)
            if nondeg >= 2 or (nstrata > nondeg) or zero:
                st.nt((tuple(idxs), tuple(Z), variant))
            tests = [("power_divergence", lambda **kw: CITests.power_divergence(lambda_=lname, **kw))]
            if lam == 1.0 and isinstance(lname, str):
                tests.append(("chi_square", CITests.chi_square))
            if lam == 0.0 and isinstance(lname, str):
                tests += [("g_sq", CITests.g_sq), ("log_likelihood", CITests.log_likelihood)]
            if lam == -1.0 and isinstance(lname, str):
                tests.append(("modified_log_likelihood", CITests.modified_log_likelihood))
            for tname, fn in tests:
                case = dict(base, site=tname, test=repr(lname), Z=Z)
                st.evals += 1
                st.transitions += 1
                res, err = _call(fn, X="X", Y="Y", Z=Z, data=df, boolean=False)
                if err:
                    st.violation(tname, "exception", case, err)
                    continue
                st.compared += 1
                gchi, gp, gdof = float(res[0]), float(res[1]), int(res[2])
                ok = gdof == dof and _close(gchi, chi) and _close(gp, p)
                if not ok:
                    st.violation(tname, "wrong-statistic", case, {"chi": gchi, "p": gp, "dof": gdof}, {"chi": chi, "p": p, "dof": dof},
                                 detail={"all_strata_degenerate": dof == 0, "unconditional": not Z})
                    continue
                st.outcome((round(chi, 9), dof))
                # symmetry X <-> Y
                res2, err2 = _call(fn, X="Y", Y="X", Z=Z, data=df, boolean=False)
                st.evals += 1
                st.compared += 1
                if err2 or not (_close(float(res2[0]), gchi) and _close(float(res2[1]), gp) and int(res2[2]) == gdof):
                    st.violation(tname, "not-symmetric", case, err2 or [float(res2[0]), float(res2[1]), int(res2[2])], [gchi, gp, gdof])
                # boolean verdict == (p >= alpha)
                if tname in ("power_divergence", "chi_square", "g_sq"):
                    for alpha in (0.01, 0.05, 0.5):
                        b, errb = _call(fn, X="X", Y="Y", Z=Z, data=df, boolean=True, significance_level=alpha)
                        st.evals += 1
                        st.compared += 1
                        if errb or bool(b) != (p >= alpha):
                            if abs(p - alpha) > 1e-9:
                                st.violation(tname, "wrong-verdict", dict(case, alpha=alpha), errb or bool(b), p >= alpha)
        # row order invariance (pearson only)
        if len(rows) > 1:
            res1, e1 = _call(CITests.chi_square, X="X", Y="Y", Z=Z, data=df, boolean=False)
            res2, e2 = _call(CITests.chi_square, X="X", Y="Y", Z=Z, data=df.iloc[::-1].reset_index(drop=True), boolean=False)
            st.evals += 2
            st.compared += 1
            if not e1 and not e2 and not (_close(float(res1[0]), float(res2[0])) and int(res1[2]) == int(res2[2])):
                st.violation("chi_square", "row-order-dependence", dict(base, site="chi_square", test="pearson", Z=Z), list(map(float, res2[:2])), list(map(float, res1[:2])))
    if len(dom) == 4:
        # Z order invariance
        a, ea = _call(CITests.chi_square, X="X", Y="Y", Z=["Z1", "Z2"], data=df, boolean=False)
        b, eb = _call(CITests.chi_square, X="X", Y="Y", Z=["Z2", "Z1"], data=df, boolean=False)
        st.compared += 1
        if not ea and not eb and not (_close(float(a[0]), float(b[0])) and int(a[2]) == int(b[2]) and _close(float(a[1]), float(b[1]))):
            st.violation("chi_square", "z-order-dependence", dict(base, site="chi_square", test="pearson", Z=["Z1", "Z2"]), list(map(float, b[:2])), list(map(float, a[:2])))
    if len(st.samples) < 1 and len(rows) >= 3:
        st.sample({"rows": rows, "columns": cols})


def _close(a, b, tol=1e-9):
    if a != a and b != b:
        return True
    if math.isinf(a) or math.isinf(b):
        return a == b
    return abs(a - b) <= tol * max(1.0, abs(b))


def _indep(st):
    """exactly independent tables: outer-product counts in every stratum => statistic 0, p-value 1, 'independent' at every level"""
    from pgmpy.estimators import CITests

    k = 0
    for rx in ((1, 2), (2, 1, 1), (3, 1)):
        for ry in ((1, 1), (2, 3), (1, 2, 1)):
            for rx2, ry2 in (((1, 1), (1, 1)), ((2, 1), (1, 3)), (None, None)):
                rows = []
                for z, (a, b) in enumerate(((rx, ry), (rx2, ry2))):
                    if a is None:
                        continue
                    for i, ca in enumerate(a):
                        for j, cb in enumerate(b):
                            rows += [(i, j, z)] * (ca * cb)
                k += 1
                _disc(st, [3, 3, 2], [], table=rows)
                chi, dof, zero, nondeg, _ = ref_stat(rows, 0, 1, [2], 1.0)
                assert abs(chi) < 1e-12, (rows, chi)
    st.bump("independent-tables", k)


def _hetero(st):
    """heterogeneous strata: ONE strongly dependent 2x2 stratum (first or last in sort order) among exactly independent 3x3
    strata. The total statistic is the sum over strata and the degrees of freedom add up, so a prefix of the strata can be
    significant while the whole test is not: the verdict has to be taken from the complete sum"""
    k = 0
    for dep in ([[8, 1], [1, 8]], [[6, 0], [0, 6]], [[5, 2], [1, 6]]):
        for nind in (2, 3, 5):
            for where in ("first", "last"):
                strata = [(z1, z2) for z1 in range(2) for z2 in range(3)][:nind + 1]
                dpos = strata[0] if where == "first" else strata[-1]
                rows = []
                for zi, z in enumerate(strata):
                    if z == dpos:
                        for i in range(2):
                            for j in range(2):
                                rows += [(i, j) + z] * dep[i][j]
                    else:
                        rx, ry = ((1, 2, 1), (2, 1, 1)) if zi % 2 else ((1, 1, 2), (1, 2, 1))
                        for i, ca in enumerate(rx):
                            for j, cb in enumerate(ry):
                                rows += [(i, j) + z] * (ca * cb)
                k += 1
                _disc(st, [3, 3, 2, 3], [], table=rows)
    st.bump("heterogeneous-tables", k)


# ------------------------------------------------------------------ continuous
POOL = [(-1, 0, 1, 2, 0), (2, -1, 0, 1, 1), (0, 2, -1, 1, 0), (1, 1, 2, -1, 0), (0, 0, 1, -1, 2), (2, 1, 0, 0, -1)]


def ref_pearson(x, y, Zm):
    from scipy import stats

    n = len(x)
    if Zm.shape[1]:
        A = np.column_stack([np.ones(n), Zm])
        rx = x - A @ np.linalg.lstsq(A, x, rcond=None)[0]
        ry = y - A @ np.linalg.lstsq(A, y, rcond=None)[0]
    else:
        rx, ry = x - x.mean(), y - y.mean()
    sx, sy = float(np.sqrt((rx ** 2).sum())), float(np.sqrt((ry ** 2).sum()))
    if sx < 1e-9 or sy < 1e-9:
        return None
    r = float((rx * ry).sum() / (sx * sy))
    r = max(-1.0, min(1.0, r))
    if abs(abs(r) - 1) < 1e-12:
        return r, 0.0
    t = r * math.sqrt((n - 2) / (1 - r * r))
    return r, float(2 * stats.t.sf(abs(t), n - 2))


def _cont(st, xi):
    import pandas as pd

    from pgmpy.estimators.CITests import pearsonr

    st.states += 1
    for yi in range(6):
        for zi in range(6):
            for z2 in ([None] + ([(zi + 1) % 6, (zi + 2) % 6] if (xi + yi) % 2 == 0 else [])):
                if len({xi, yi, zi}) < 3 or z2 in (xi, yi, zi):
                    continue
                cols = {"X": POOL[xi], "Y": POOL[yi], "Z1": POOL[zi]}
                if z2 is not None:
                    cols["Z2"] = POOL[z2]
                df0 = pd.DataFrame({k: np.array(v, dtype=float) for k, v in cols.items()})
                for Z in ([], ["Z1"]) + ((["Z1", "Z2"],) if z2 is not None else ()):
                    ref = ref_pearson(df0["X"].values, df0["Y"].values, df0[Z].values if Z else np.zeros((5, 0)))
                    if ref is None:
                        continue
                    base = {"part": "cont", "xi": xi, "cols": [xi, yi, zi, z2], "Z": Z, "site": "pearsonr", "test": "pearsonr"}
                    st.nt((xi, yi, zi, z2, tuple(Z)))
                    variants = [("id", {})]
                    for c in df0.columns:
                        for nm, f in (("+1", lambda v: v + 1), ("-1", lambda v: v - 1), ("+10", lambda v: v + 10), ("*2", lambda v: v * 2), ("/2", lambda v: v / 2)):
                            variants.append((c + nm, {c: f}))
                    # the frame's index is not content: rows reordered with their labels kept, string labels, a gapped index
                    variants += [("idx-perm", "perm"), ("idx-str", "str"), ("idx-gap", "gap")]
                    for vname, tr in variants:
                        df = df0.copy()
                        if isinstance(tr, str):
                            if tr == "perm":
                                df = df.iloc[[(3 * i + 1) % len(df) for i in range(len(df))]]
                            elif tr == "str":
                                df.index = [f"r{i}" for i in range(len(df))]
                            else:
                                df.index = [2 * i + 5 for i in range(len(df))]
                            tr = {}
                        for c, f in tr.items():
                            df[c] = f(df[c])
                        case = dict(base, variant=vname)
                        st.evals += 1
                        st.transitions += 1
                        try:
                            coef, p = pearsonr(X="X", Y="Y", Z=Z, data=df, boolean=False)
                        except Exception as ex:
                            st.violation("pearsonr", "exception", case, repr(ex)[:200])
                            continue
                        st.compared += 1
                        if not (abs(float(coef) - ref[0]) <= 1e-7 and abs(float(p) - ref[1]) <= 1e-7):
                            st.violation("pearsonr", "wrong-statistic" if vname == "id" else "depends-on-frame-index" if vname.startswith("idx") else "not-affine-invariant", case, [float(coef), float(p)], list(ref))
                            break
                        st.outcome(round(ref[0], 6))
                        b = pearsonr(X="X", Y="Y", Z=Z, data=df, boolean=True, significance_level=0.05)
                        if bool(b) != (ref[1] >= 0.05) and abs(ref[1] - 0.05) > 1e-7:
                            st.violation("pearsonr", "wrong-verdict", case, bool(b), ref[1] >= 0.05)
    st.sample({"pool": POOL, "x": xi})
