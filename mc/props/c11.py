"""C11: score-based structure search honours its contract (E1)."""
import math
from itertools import combinations, combinations_with_replacement, permutations, product

import numpy as np

from mc.gen.dags import all_dags, is_acyclic
from mc.stats import Stats

EXPLORER = "E1"
RULE = ("E1 hill climbing: every multiset of <=k rows over 3 binary columns (+ truth-table data on 3-4 columns) x option configurations "
        "explored by number of deviations from the defaults (scoring in {k2,bdeu,bds,bic,aic}, start DAG, fixed_edges, black/white "
        "list, max_indegree, tabu_length, epsilon, use_cache; all single deviations and the listed pairs): result acyclic, over "
        "exactly the columns, contains fixed edges, avoids the black list, additions within the white list, in-degree bound, "
        "score >= start score, and with tabu_length=0 an INDEPENDENT enumeration of legal add/delete/flip moves finds no move "
        "with delta >= epsilon; cached == uncached. Exhaustive search: own enumeration of all DAGs, maximal score, all_scores "
        "sorted and complete. Tree search: ALL 729 symmetric weight matrices over {1,2,3} on 4 nodes (ties included) through a "
        "callable weight function x every root: maximum-weight spanning tree (brute force over all 16 trees) directed away from "
        "the root; TAN for every class node; real mutual information on data with strictly positive pairwise MI. "
        "non-trivial = distinct (data, configuration) whose result differs from the start graph; weight matrices with ties")
BOUNDS = {"quick": "HC: multisets of <=3 rows (164) + 16 truth-table sets, 26 configurations each; exhaustive: 60 data sets x 2 scores; tree: 729 matrices x 4 roots + TAN; HC on 4 columns from the 24 labelings of path+shortcut x 6 data sets x 3 scores; HC with the tabu list disabled on lattice data (108 sets on 4 columns x 4 start graphs x 2 scores, 144 sets on 5 ternary columns x 3 scores); named weight functions on 108 data sets (chow-liu x 4 roots, TAN x 4 classes)",
          "thorough": "HC: multisets of <=4 rows (494), pairs of deviations; exhaustive on 4 columns for 6 data sets; HC from every labelled 4-node DAG (543) x 6 data sets x {k2,bic}"}
EXHAUSTIVE = {"quick": True, "thorough": True}
ASSUMPTIONS = ["local optimality is judged with the library's own (uncached) local scores; their correctness is property C10",
               "start graphs satisfy the in-degree bound and contain no black-listed edge"]

COLS = ["A", "B", "C"]


def datasets(tier):
    rows = list(product(range(2), repeat=3))
    k = 3 if tier == "quick" else 4
    out = []
    for r in range(1, k + 1):
        out.extend([list(s) for s in combinations_with_replacement(range(8), r)])
    return rows, out


TRUTH = {
    "copy": lambda a, b: (a, b, a), "xor": lambda a, b: (a, b, a ^ b), "and": lambda a, b: (a, b, a & b), "chain": lambda a, b: (a, a, a),
}


def truth_sets():
    out = []
    for nm, f in TRUTH.items():
        for reps in (1, 3):
            rows = [f(a, b) for a in (0, 1) for b in (0, 1)] * reps
            out.append((nm, reps, rows))
            out.append((nm + "+noise", reps, rows + [(1, 0, 0), (0, 1, 1)]))
    return out


def configs(tier):
    base = {"scoring": "k2", "start": None, "fixed": [], "black": None, "white": None, "indeg": None, "tabu": 100, "eps": 1e-4, "cache": True}
    out = [dict(base)]
    for s in ("bdeu", "bds", "bic", "aic"):
        out.append(dict(base, scoring=s))
    for st_ in ([(0, 1)], [(0, 1), (1, 2)], [(2, 0), (2, 1)], [(0, 1), (0, 2), (1, 2)]):
        out.append(dict(base, start=[list(e) for e in st_]))
    out += [dict(base, fixed=[[0, 1]]), dict(base, fixed=[[2, 0]], start=[[2, 0]]), dict(base, black=[[0, 1]]), dict(base, black=[[1, 0], [0, 1]]),
            dict(base, white=[[0, 1], [1, 2], [2, 0]]), dict(base, white=[]), dict(base, indeg=1), dict(base, indeg=2), dict(base, tabu=0), dict(base, tabu=2),
            dict(base, eps=0.5), dict(base, cache=False),
            dict(base, tabu=0, scoring="bic"), dict(base, tabu=0, scoring="bdeu", cache=False), dict(base, tabu=0, indeg=1), dict(base, tabu=0, black=[[0, 1]], fixed=[[1, 2]]),
            dict(base, tabu=0, start=[[0, 1], [1, 2]], white=[[2, 0], [0, 2], [1, 0]])]
    # in-degree bound together with non-empty start graphs (a reversal can push a node over the bound)
    for st_ in ([(0, 1)], [(0, 1), (1, 2)], [(2, 0), (0, 1)], [(2, 0), (2, 1)]):
        for i in (1, 2):
            out.append(dict(base, start=[list(e) for e in st_], indeg=i))
            out.append(dict(base, start=[list(e) for e in st_], indeg=i, tabu=0, scoring="bic"))
    # a score with a non-trivial structure prior (BDs) with the tabu list disabled, from the empty and from non-empty start graphs
    out.append(dict(base, tabu=0, scoring="bds"))
    for st_ in ([(0, 1)], [(0, 1), (1, 2)], [(2, 0), (2, 1)], [(0, 1), (0, 2), (1, 2)]):
        out.append(dict(base, tabu=0, scoring="bds", start=[list(e) for e in st_]))
        out.append(dict(base, tabu=0, scoring="k2", start=[list(e) for e in st_]))
    if tier == "thorough":
        out += [dict(base, tabu=0, scoring=s, indeg=i) for s in ("k2", "bic", "aic") for i in (1, 2)]
        out += [dict(base, tabu=0, eps=0.5, scoring=s) for s in ("k2", "bds")]
    return out


def groups(tier, seed):
    out = []
    rows, sets = datasets(tier)
    for i in range(0, len(sets), 6):
        out.append({"part": "hc", "sets": sets[i:i + 6]})
    out.append({"part": "hc-truth"})
    for i in range(0, min(len(sets), 60), 10):
        out.append({"part": "ex", "sets": sets[i:i + 10]})
    for i in range(0, 729, 27):
        out.append({"part": "tree", "lo": i, "hi": i + 27})
    out.append({"part": "tree-mi"})
    for i in range(0, 24, 2):
        out.append({"part": "hc4", "perms": [i, i + 1]})
    fam = list(named_family())
    for i in range(0, len(fam), 9):
        out.append({"part": "tree-named", "lo": i, "hi": min(i + 9, len(fam))})
    # noisy (pseudo-random lattice) data, tabu list disabled: searches in which an earlier move has to be undone later
    for i in range(0, len(fam), 6):
        out.append({"part": "hc-lattice", "cols": 4, "lo": i, "hi": min(i + 6, len(fam))})
    f5 = list(lattice5())
    for i in range(0, len(f5), 6):
        out.append({"part": "hc-lattice", "cols": 5, "lo": i, "hi": min(i + 6, len(f5))})
    if tier == "thorough":
        # every labelled 4-node DAG as the start graph
        n4 = len(all_dags(4))
        for i in range(0, n4, 8):
            out.append({"part": "hc4all", "lo": i, "hi": min(i + 8, n4)})
    return out


def run_group(g, tier):
    st = Stats()
    if g["part"] == "hc":
        rows = list(product(range(2), repeat=3))
        for s in g["sets"]:
            for ci, cfg in enumerate(configs(tier)):
                _hc(st, [rows[i] for i in s], cfg, {"part": "hc", "set": s, "ci": ci})
    elif g["part"] == "hc-truth":
        for nm, reps, rows in truth_sets():
            for ci, cfg in enumerate(configs(tier)):
                _hc(st, rows, cfg, {"part": "hc-truth", "set": [nm, reps], "ci": ci})
    elif g["part"] == "ex":
        rows = list(product(range(2), repeat=3))
        for s in g["sets"]:
            _ex(st, [rows[i] for i in s], {"part": "ex", "set": s})
    elif g["part"] == "tree":
        for code in range(g["lo"], g["hi"]):
            _tree(st, code)
    elif g["part"] == "hc4":
        for pi in g["perms"]:
            for di in range(len(HC4_DATA)):
                for sc in HC4_SCORES:
                    _hc4(st, pi, di, sc)
    elif g["part"] == "hc4all":
        dags = all_dags(4)
        for i in range(g["lo"], g["hi"]):
            for di in range(len(HC4_DATA)):
                for sc in ("k2", "bic"):
                    _hc4(st, None, di, sc, start=[list(e) for e in dags[i]], idx=i)
    elif g["part"] == "tree-named":
        fam = list(named_family())
        for i in range(g["lo"], g["hi"]):
            _tree_named(st, fam[i][0], fam[i][1])
    elif g["part"] == "hc-lattice":
        fam = list(named_family()) if g["cols"] == 4 else list(lattice5())
        for i in range(g["lo"], g["hi"]):
            _hc_lattice(st, g["cols"], i, fam[i][1])
    else:
        _tree_mi(st)
    return st


def replay(case):
    st = Stats()
    rows = list(product(range(2), repeat=3))
    if case["part"] == "hc":
        _hc(st, [rows[i] for i in case["set"]], configs("thorough" if case["ci"] >= len(configs("quick")) else "quick")[case["ci"]], {"part": "hc", "set": case["set"], "ci": case["ci"]})
    elif case["part"] == "hc-truth":
        t = {(nm, reps): r for nm, reps, r in truth_sets()}
        _hc(st, t[tuple(case["set"])], configs("quick")[case["ci"]], {"part": "hc-truth", "set": case["set"], "ci": case["ci"]})
    elif case["part"] == "ex":
        _ex(st, [rows[i] for i in case["set"]], {"part": "ex", "set": case["set"]})
    elif case["part"] == "tree":
        _tree(st, case["code"])
    elif case["part"] == "hc4":
        _hc4(st, case["perm"], case["data"], case["cfg"]["scoring"], start=case["cfg"]["start"] if case["perm"] is None else None, idx=case.get("idx"))
    elif case["part"] == "hc-lattice":
        fam = list(named_family()) if case["cols"] == 4 else list(lattice5())
        _hc_lattice(st, case["cols"], case["idx"], fam[case["idx"]][1], only=case["cfg"])
    elif case["part"] == "tree-named":
        fam = dict((tuple(k), r) for k, r in named_family())
        _tree_named(st, case["key"], fam[tuple(case["key"])])
        return [v for v in st.violations if v["site"] == case["site"] and v["case"].get("fn") == case.get("fn") and v["case"].get("root") == case.get("root")
                and v["case"].get("class") == case.get("class")][:5]
    else:
        _tree_mi(st)
    return st.violations[:5]


def mk_scorer(name, df):
    from pgmpy.estimators import AICScore, BDeuScore, BDsScore, BicScore, K2Score

    return {"k2": K2Score, "bdeu": BDeuScore, "bds": BDsScore, "bic": BicScore, "aic": AICScore}[name](df)


def _hc(st, data, cfg, base, COLS=COLS):
    import networkx as nx
    import pandas as pd

    from pgmpy.base import DAG
    from pgmpy.estimators import HillClimbSearch

    df = pd.DataFrame(data, columns=COLS)
    if len(df) and sum(map(sum, data)) % 3 == 1:
        # the frame's index is not content: descending, gapped labels on every third data set
        df.index = [3 * (len(df) - i) + 2 for i in range(len(df))]
    nm = lambda e: (COLS[e[0]], COLS[e[1]])
    start_edges = [nm(e) for e in (cfg["start"] or [])]
    fixed = {nm(e) for e in cfg["fixed"]}
    black = None if cfg["black"] is None else [nm(e) for e in cfg["black"]]
    white = None if cfg["white"] is None else [nm(e) for e in cfg["white"]]
    # only configurations the contract quantifies over
    if any(e in (black or []) for e in start_edges) or any(e in (black or []) for e in fixed):
        return
    start = None
    if cfg["start"] is not None:
        start = DAG()
        start.add_nodes_from(COLS)
        start.add_edges_from(start_edges)
        if cfg["indeg"] is not None and max(dict(start.in_degree()).values()) > cfg["indeg"]:
            return
    case = dict(base, site="HillClimbSearch.estimate", cfg=cfg)
    st.states += 1
    st.evals += 1
    st.transitions += 1
    try:
        hc = HillClimbSearch(df, use_cache=cfg["cache"])
        res = hc.estimate(scoring_method=cfg["scoring"], start_dag=start, fixed_edges=set(fixed), tabu_length=cfg["tabu"], max_indegree=cfg["indeg"],
                          black_list=black, white_list=white, epsilon=cfg["eps"], show_progress=False)
    except Exception as ex:
        st.violation("HillClimbSearch.estimate", "exception", case, repr(ex)[:300])
        return
    E = set(res.edges())
    S0 = set(start_edges) | fixed
    if E != S0:
        st.nt((tuple(map(tuple, data)), str(cfg)))
    st.compared += 1
    bad = None
    if set(res.nodes()) != set(COLS):
        bad = f"nodes {sorted(res.nodes())}"
    elif not nx.is_directed_acyclic_graph(res):
        bad = "result has a directed cycle"
    elif not fixed <= E:
        bad = f"fixed edge missing: {sorted(fixed - E)}"
    elif black and E & set(black):
        bad = f"black-listed edge present: {sorted(E & set(black))}"
    elif white is not None and (E - S0) - set(white):
        bad = f"added edge outside the white list: {sorted((E - S0) - set(white))}"
    elif cfg["indeg"] is not None and max(dict(res.in_degree()).values()) > cfg["indeg"]:
        bad = f"in-degree bound {cfg['indeg']} exceeded"
    if bad:
        st.violation("HillClimbSearch.estimate", "contract-broken", case, sorted(E), bad)
        return
    sc = mk_scorer(cfg["scoring"], df)

    def total(edges):
        return sum(sc.local_score(v, [a for a, b in sorted(edges) if b == v]) for v in COLS) + _prior(sc, edges, COLS)
    s_res, s_start = total(E), total(S0)
    st.compared += 1
    if s_res < s_start - 1e-9:
        st.violation("HillClimbSearch.estimate", "score-decreased", case, s_res, s_start)
        return
    if cfg["tabu"] == 0:
        # independent enumeration of legal single-edge moves
        best = None
        adj = {(a, b) for a, b in E}
        for X, Y in permutations(COLS, 2):
            if (X, Y) in adj or (Y, X) in adj:
                continue
            if _has_path(adj, Y, X):
                continue
            if (black and (X, Y) in black) or (white is not None and (X, Y) not in white):
                continue
            if cfg["indeg"] is not None and sum(1 for a, b in adj if b == Y) + 1 > cfg["indeg"]:
                continue
            d = total(adj | {(X, Y)}) - s_res
            best = max(best, (d, ("+", X, Y))) if best else (d, ("+", X, Y))
        for (X, Y) in adj:
            if (X, Y) not in fixed:
                d = total(adj - {(X, Y)}) - s_res
                best = max(best, (d, ("-", X, Y))) if best else (d, ("-", X, Y))
            # flip
            rest = adj - {(X, Y)}
            if (X, Y) in fixed or _has_path(rest, X, Y):
                continue
            if (black and (Y, X) in black) or (white is not None and (Y, X) not in white):
                continue
            if cfg["indeg"] is not None and sum(1 for a, b in rest if b == X) + 1 > cfg["indeg"]:
                continue
            d = total(rest | {(Y, X)}) - s_res
            best = max(best, (d, ("flip", X, Y))) if best else (d, ("flip", X, Y))
        st.compared += 1
        if best and best[0] >= cfg["eps"] + 1e-9:
            st.violation("HillClimbSearch.estimate", "not-a-local-optimum", case, {"edges": sorted(E), "score": s_res}, {"move": list(best[1]), "delta": best[0]})
            return
    st.outcome(tuple(sorted(E)))
    if len(st.samples) < 1 and E:
        st.sample({"data": data, "cfg": cfg, "result": sorted(E)})


def _prior(sc, edges, COLS=COLS):
    from pgmpy.base import DAG

    d = DAG()
    d.add_nodes_from(COLS)
    d.add_edges_from(edges)
    return sc.structure_prior(d)


def _has_path(adj, s, t):
    seen, stack = {s}, [s]
    while stack:
        x = stack.pop()
        if x == t:
            return True
        for a, b in adj:
            if a == x and b not in seen:
                seen.add(b)
                stack.append(b)
    return False


def _ex(st, data, base):
    import pandas as pd

    from pgmpy.estimators import BicScore, ExhaustiveSearch, K2Score

    df = pd.DataFrame(data, columns=COLS)
    if len(df) and sum(map(sum, data)) % 3 == 1:
        # the frame's index is not content: descending, gapped labels on every third data set
        df.index = [3 * (len(df) - i) + 2 for i in range(len(df))]
    st.states += 1
    for sname, cls in (("k2", K2Score), ("bic", BicScore)):
        case = dict(base, site="ExhaustiveSearch", score=sname)
        st.evals += 1
        st.transitions += 1
        try:
            sc = cls(df)
            es = ExhaustiveSearch(df, scoring_method=sc)
            best = es.estimate()
            allsc = es.all_scores()
        except Exception as ex:
            st.violation("ExhaustiveSearch", "exception", case, repr(ex)[:300])
            continue
        mine = {}
        for e in all_dags(3):
            edges = [(COLS[a], COLS[b]) for a, b in e]
            mine[frozenset(edges)] = sum(sc.local_score(v, [a for a, b in sorted(edges) if b == v]) for v in COLS)
        top = max(mine.values())
        st.compared += 3
        st.nt((tuple(map(tuple, data)), sname))
        be = frozenset(best.edges())
        if be not in mine or mine[be] < top - 1e-9 or set(best.nodes()) != set(COLS):
            st.violation("ExhaustiveSearch.estimate", "not-a-global-maximum", case, {"edges": sorted(be), "score": mine.get(be)}, top)
        got = [(float(s), frozenset(d.edges())) for s, d in allsc]
        if sorted(x[1] for x in got) != sorted(mine) if False else {x[1] for x in got} != set(mine) or len(got) != len(mine):
            st.violation("ExhaustiveSearch.all_scores", "not-all-dags", case, len(got), len(mine))
        elif any(got[i][0] > got[i + 1][0] + 1e-12 for i in range(len(got) - 1)) or any(abs(s - mine[e]) > 1e-9 for s, e in got):
            st.violation("ExhaustiveSearch.all_scores", "unsorted-or-wrong-score", case, None, None)


TREES4 = None


def spanning_trees4():
    global TREES4
    if TREES4 is None:
        pairs = list(combinations(range(4), 2))
        TREES4 = []
        for es in combinations(pairs, 3):
            seen, stack = {0}, [0]
            while stack:
                x = stack.pop()
                for a, b in es:
                    for u, w in ((a, b), (b, a)):
                        if u == x and w not in seen:
                            seen.add(w)
                            stack.append(w)
            if len(seen) == 4:
                TREES4.append(es)
    return TREES4


def _tree(st, code):
    import pandas as pd

    from pgmpy.estimators import TreeSearch

    pairs = list(combinations(range(4), 2))
    W = {}
    c = code
    for p in pairs:
        W[p] = 1 + c % 3
        c //= 3
    names = ["A", "B", "C", "D"] if code % 2 == 0 else [0, 1, 2, 3]
    df = pd.DataFrame([[0, 1, 2, 3], [0, 1, 2, 3]], columns=names)

    def wfn(u, v):
        a, b = int(np.asarray(u)[0]), int(np.asarray(v)[0])
        return float(W[(min(a, b), max(a, b))])
    best = max(sum(W[e] for e in t) for t in spanning_trees4())
    st.states += 1
    if len(set(W.values())) < 3:
        st.nt(code)
    for root in range(4):
        case = {"part": "tree", "code": code, "site": "TreeSearch.estimate", "root": root, "weights": {str(k): v for k, v in W.items()}}
        st.evals += 1
        st.transitions += 1
        try:
            dag = TreeSearch(df, root_node=names[root], n_jobs=1).estimate(estimator_type="chow-liu", edge_weights_fn=wfn, show_progress=False)
        except Exception as ex:
            st.violation("TreeSearch.estimate", "exception", case, repr(ex)[:300])
            continue
        st.compared += 1
        E = [(names.index(a), names.index(b)) for a, b in dag.edges()]
        bad = _tree_bad(E, 4, root, W, best, set(range(4)))
        if set(dag.nodes()) != set(names):
            bad = bad or "node set differs from the columns"
        if bad:
            st.violation("TreeSearch.estimate", "not-a-rooted-max-spanning-tree", case, E, bad)
        else:
            st.outcome(tuple(sorted(E)))
    # TAN with every class node: features form a max spanning tree (3 nodes), class -> every feature
    for cls_ in range(4):
        feats = [v for v in range(4) if v != cls_]
        root = feats[0]
        case = {"part": "tree", "code": code, "site": "TreeSearch.estimate(tan)", "root": root, "class": cls_}
        st.evals += 1
        st.transitions += 1
        try:
            dag = TreeSearch(df, root_node=names[root], n_jobs=1).estimate(estimator_type="tan", class_node=names[cls_], edge_weights_fn=lambda u, v, w: wfn(u, v), show_progress=False)
        except TypeError:
            try:
                dag = TreeSearch(df, root_node=names[root], n_jobs=1).estimate(estimator_type="tan", class_node=names[cls_], edge_weights_fn=wfn, show_progress=False)
            except Exception as ex:
                st.bump("tan-custom-weights-unsupported")
                continue
        except Exception as ex:
            st.bump("tan-custom-weights-unsupported")
            continue
        st.compared += 1
        E = [(names.index(a), names.index(b)) for a, b in dag.edges()]
        tree_e = [e for e in E if cls_ not in e]
        cls_e = {e for e in E if cls_ in e}
        sub_best = max(sum(W[(min(a, b), max(a, b))] for a, b in t) for t in _trees_on(feats))
        bad = _tree_bad(tree_e, 3, root, W, sub_best, set(feats))
        if cls_e != {(cls_, f) for f in feats}:
            bad = bad or f"class edges {sorted(cls_e)}"
        if bad:
            st.violation("TreeSearch.estimate(tan)", "not-a-tan-structure", case, E, bad)


def _trees_on(nodes):
    nodes = list(nodes)
    out = []
    for es in combinations(list(combinations(nodes, 2)), len(nodes) - 1):
        seen, stack = {nodes[0]}, [nodes[0]]
        while stack:
            x = stack.pop()
            for a, b in es:
                for u, w in ((a, b), (b, a)):
                    if u == x and w not in seen:
                        seen.add(w)
                        stack.append(w)
        if len(seen) == len(nodes):
            out.append(es)
    return out


def _tree_bad(E, n, root, W, best, nodes):
    if len(E) != n - 1:
        return f"{len(E)} edges, expected {n - 1}"
    indeg = {v: 0 for v in nodes}
    for a, b in E:
        if a not in nodes or b not in nodes:
            return "edge outside the node set"
        indeg[b] += 1
    if indeg[root] != 0 or any(indeg[v] != 1 for v in nodes if v != root):
        return "not directed away from the root (some node does not have exactly one parent)"
    seen, stack = {root}, [root]
    while stack:
        x = stack.pop()
        for a, b in E:
            if a == x and b not in seen:
                seen.add(b)
                stack.append(b)
    if seen != set(nodes):
        return "not every node is reachable from the root"
    w = sum(W[(min(a, b), max(a, b))] for a, b in E)
    if w != best:
        return f"tree weight {w} < maximum {best}"
    return None


# ---- four columns: start graphs in which reversing X->Y would close a cycle through a path of three edges
COLS4 = ["W", "X", "Y", "Z"]
HC4_SCORES = ["k2", "bic", "bdeu", "bds"]


def _hc4_data():
    out = []
    base = [(x, a, b, x) for x in (0, 1) for a in (0, 1) for b in (0, 1)]          # first == last, middle columns free
    out.append(base * 2)
    out.append(base * 2 + [(0, 0, 0, 1), (1, 1, 1, 0)])
    out.append(base * 3 + [(0, 1, 0, 1)])
    chain = [(x, x, x, x) for x in (0, 1)] * 4 + [(0, 0, 1, 1), (0, 1, 1, 1), (1, 1, 0, 0), (1, 0, 0, 0)]
    out.append(chain)
    out.append([(x, a, a ^ x, x) for x in (0, 1) for a in (0, 1)] * 3 + [(0, 1, 0, 1), (1, 0, 0, 0)])
    out.append([(x, a, b, x & a) for x in (0, 1) for a in (0, 1) for b in (0, 1)] * 2 + [(1, 1, 0, 0)])
    return out


HC4_DATA = _hc4_data()


def _hc4(st, pi, di, scoring, start=None, idx=None):
    """start graph p0->p1->p2->p3 plus the shortcut p0->p3 for every labelling p of the four columns (or the given start graph)"""
    if start is None:
        p = list(permutations(range(4)))[pi]
        start = [[p[0], p[1]], [p[1], p[2]], [p[2], p[3]], [p[0], p[3]]]
    for tabu in (0, 100) if pi is not None else (0,):
        cfg = {"scoring": scoring, "start": start, "fixed": [], "black": None, "white": None, "indeg": None, "tabu": tabu, "eps": 1e-4, "cache": True}
        _hc(st, HC4_DATA[di], cfg, {"part": "hc4", "perm": pi, "data": di, "idx": idx}, COLS4)


COLS5 = ["V", "W", "X", "Y", "Z"]
DENSE4 = [[[p[i], p[j]] for i in range(4) for j in range(i + 1, 4)] for p in ((0, 1, 2, 3), (3, 2, 1, 0), (2, 0, 3, 1))]


def lattice5():
    """deterministic pseudo-random data over five ternary columns"""
    for N in (24, 32, 40, 48):
        for s1 in (1, 2, 3, 4):
            for s2 in (1, 2, 3):
                for s3 in (0, 1, 2):
                    yield [N, s1, s2, s3], [((i * s1 + i // 3) % 3, (i // 2 + (i // 5) * s3) % 3, (i * s1 + i // 4 + s3) % 3, (i * s2 + i // 3 + (i * i) // 7) % 3,
                                             (i * i * s2 + i // 2 + s1 * (i // 6)) % 3) for i in range(N)]


def _hc_lattice(st, ncols, idx, rows, only=None):
    cols = COLS4 if ncols == 4 else COLS5
    starts = [None] + (DENSE4 if ncols == 4 else [])
    for scoring in (("k2", "bic") if ncols == 4 else ("k2", "bic", "bdeu")):
        for start in starts:
            cfg = {"scoring": scoring, "start": start, "fixed": [], "black": None, "white": None, "indeg": None, "tabu": 0, "eps": 1e-4, "cache": True}
            if only is not None and cfg != only:
                continue
            _hc(st, rows, cfg, {"part": "hc-lattice", "cols": ncols, "idx": idx}, cols)


def named_family():
    """deterministic lattice of small data sets over 4 columns with cardinalities 2,2,5,3"""
    for N in range(10, 19):
        for s1 in (1, 2, 3):
            for s2 in (1, 2):
                for s3 in (0, 1):
                    yield [N, s1, s2, s3], [(i % 2, ((i // 2) + (i // 5) * s3) % 2, (i * s1 + i // 4) % 5, (i * s2 + i // 3 + (i * i) // 7) % 3) for i in range(N)]


def _tree_named(st, key, rows):
    """the three NAMED weight functions (chow-liu for every root, TAN for every class): the reference weights come from the
    same sklearn functions (trusted base), the spanning-tree maximisation and the conditioning on the class are the harness's own"""
    import pandas as pd
    from sklearn.metrics import adjusted_mutual_info_score, mutual_info_score, normalized_mutual_info_score

    from pgmpy.estimators import TreeSearch

    names = ["A", "B", "C", "D"]
    df = pd.DataFrame(rows, columns=names)
    cols = list(zip(*rows))
    fns = {"mutual_info": mutual_info_score, "adjusted_mutual_info": adjusted_mutual_info_score, "normalized_mutual_info": normalized_mutual_info_score}
    st.states += 1
    tops = {}
    for fn, f in fns.items():
        W = {(a, b): float(f(cols[a], cols[b])) for a, b in combinations(range(4), 2)}
        sc = sorted(((sum(W[e] for e in t), t) for t in spanning_trees4()), reverse=True)
        best = sc[0][0]
        tops[fn] = sc[0][1] if sc[0][0] - sc[1][0] > 1e-9 else None
        for root in range(4):
            if min(abs(w) for w in W.values()) <= 1e-9:
                # a zero weight is a missing edge of the weight graph: the contract speaks about graphs that have a spanning tree
                st.bump("skipped-zero-weight")
                tops[fn] = None
                continue
            case = {"part": "tree-named", "key": key, "site": "TreeSearch.estimate(named)", "fn": fn, "root": root}
            st.evals += 1
            st.transitions += 1
            try:
                dag = TreeSearch(df, root_node=names[root], n_jobs=1).estimate(estimator_type="chow-liu", edge_weights_fn=fn, show_progress=False)
            except Exception as ex:
                st.violation("TreeSearch.estimate(named)", "exception", case, repr(ex)[:300])
                continue
            st.compared += 1
            E = [(names.index(a), names.index(b)) for a, b in dag.edges()]
            bad = _tree_bad(E, 4, root, {k: 1 for k in W}, 3, set(range(4)))
            if bad is None:
                w = sum(W[(min(a, b), max(a, b))] for a, b in E)
                if w < best - 1e-9:
                    bad = f"tree weight {w} < maximum {best} under {fn}"
            if bad:
                st.violation("TreeSearch.estimate(named)", "not-a-rooted-max-spanning-tree", case, E, bad)
            else:
                st.outcome((fn, tuple(sorted(E))))
        # TAN: weights conditioned on the class
        for cls_ in range(4):
            feats = [v for v in range(4) if v != cls_]
            W3 = {}
            degenerate = False
            for a, b in combinations(feats, 2):
                tot = 0.0
                for c in sorted(set(cols[cls_])):
                    idx = [i for i in range(len(rows)) if cols[cls_][i] == c]
                    tot += len(idx) / len(rows) * float(f([cols[a][i] for i in idx], [cols[b][i] for i in idx]))
                W3[(a, b)] = tot
            sub = sorted((sum(W3[(min(a, b), max(a, b))] for a, b in t) for t in _trees_on(feats)), reverse=True)
            if min(abs(w) for w in W3.values()) <= 1e-9:
                st.bump("skipped-zero-weight")
                continue
            root = feats[0]
            case = {"part": "tree-named", "key": key, "site": "TreeSearch.estimate(tan,named)", "fn": fn, "root": root, "class": cls_}
            st.evals += 1
            st.transitions += 1
            try:
                dag = TreeSearch(df, root_node=names[root], n_jobs=1).estimate(estimator_type="tan", class_node=names[cls_], edge_weights_fn=fn, show_progress=False)
            except Exception as ex:
                st.violation("TreeSearch.estimate(tan,named)", "exception", case, repr(ex)[:300])
                continue
            st.compared += 1
            E = [(names.index(a), names.index(b)) for a, b in dag.edges()]
            tree_e = [e for e in E if cls_ not in e]
            bad = _tree_bad(tree_e, 3, root, {k: 1 for k in W3}, 2, set(feats))
            if bad is None:
                w = sum(W3[(min(a, b), max(a, b))] for a, b in tree_e)
                if w < sub[0] - 1e-9:
                    bad = f"feature tree weight {w} < maximum {sub[0]} under {fn} given the class"
            if bad is None and {e for e in E if cls_ in e} != {(cls_, f_) for f_ in feats}:
                bad = "class edges"
            if bad:
                st.violation("TreeSearch.estimate(tan,named)", "not-a-tan-structure", case, E, bad)
    if tops["adjusted_mutual_info"] and tops["normalized_mutual_info"] and tops["adjusted_mutual_info"] != tops["normalized_mutual_info"]:
        st.nt(("ami!=nmi", tuple(key)))
    if tops["mutual_info"] and tops["normalized_mutual_info"] and tops["mutual_info"] != tops["normalized_mutual_info"]:
        st.nt(("mi!=nmi", tuple(key)))


def _tree_mi(st):
    """real mutual information: data sets whose pairwise MI is strictly positive and pairwise distinct"""
    import pandas as pd
    from sklearn.metrics import mutual_info_score

    from pgmpy.estimators import TreeSearch

    base_rows = [(0, 0, 0, 0), (0, 0, 1, 0), (0, 1, 1, 1), (1, 1, 1, 0), (1, 1, 0, 1), (1, 0, 0, 1), (0, 0, 0, 1), (1, 1, 1, 1), (1, 0, 1, 1), (0, 1, 0, 0)]
    names = ["A", "B", "C", "D"]
    st.states += 1
    for shift in range(6):
        rows = base_rows[shift:] + base_rows[:shift][: max(0, shift - 2)]
        df = pd.DataFrame(rows, columns=names)
        W = {}
        for a, b in combinations(range(4), 2):
            W[(a, b)] = float(mutual_info_score(df[names[a]], df[names[b]]))
        if min(W.values()) <= 1e-9:
            continue
        best = max(sum(W[e] for e in t) for t in spanning_trees4())
        for root in range(4):
            case = {"part": "tree-mi", "site": "TreeSearch.estimate(mi)", "shift": shift, "root": root}
            st.evals += 1
            st.transitions += 1
            st.nt((shift, root))
            try:
                dag = TreeSearch(df, root_node=names[root], n_jobs=1).estimate(show_progress=False)
            except Exception as ex:
                st.violation("TreeSearch.estimate(mi)", "exception", case, repr(ex)[:300])
                continue
            st.compared += 1
            E = [(names.index(a), names.index(b)) for a, b in dag.edges()]
            w = sum(W[(min(a, b), max(a, b))] for a, b in E)
            bad = _tree_bad(E, 4, root, {k: 1 for k in W}, 3, set(range(4)))
            if bad is None and w < best - 1e-9:
                bad = f"tree weight {w} < maximum {best}"
            if bad:
                st.violation("TreeSearch.estimate(mi)", "not-a-rooted-max-spanning-tree", case, E, bad)
