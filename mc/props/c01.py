"""C01: exact posterior by variable elimination (E1)."""
from fractions import Fraction as F
from itertools import permutations

import numpy as np

from mc import build
from mc.build import Labeling, cmp_named, make_bn, named_table, ref_named, tbl_json
from mc.gen.dags import all_dags, iso_classes
from mc.gen.tables import bn_from_desc, core_descs, family_descs
from mc.questions import questions
from mc.stats import Stats

EXPLORER = "E1"
RULE = ("E1: every model of the stated families x every non-empty query set x every disjoint evidence set x every "
        "ordering of the evidence dict x every evidence state vector with P(e)>0 x virtual evidence (0-1 items) x "
        "elimination_order in {greedy, MinFill, MinNeighbors, MinWeight, WeightedMinFill, None, every explicit "
        "permutation} x joint in {True, False}, also through to_markov_model() (no pruning); oracle = Fraction joint, "
        "compared per named assignment. non-trivial = distinct (model, query, evidence, virtual) whose posterior differs "
        "from the prior marginal of the query")
BOUNDS = {
    "quick": "core: the isomorphism classes of DAGs on <=3 binary nodes x every column assignment from a 2-element alphabet, "
             "full option product; families: 25 3-node DAGs x cardvecs {(2,3,2),(3,2,2),(1,2,3)} x 3 column families with "
             "virtual evidence; labeling deviations (5 int + 5 str relabelings, 5 state styles, multi/tuple names) at "
             "deviation bound 1 on 50 models; 31 iso classes of 4-node DAGs, |Q|<=2,|E|<=2",
    "thorough": "core with 3-element alphabet (18009 nets on 3 nodes); all 543 4-node DAGs; all relabelings x styles on "
                "the 2-element core families; virtual evidence everywhere; the 302 classes of 5-node DAGs with |Q|<=2, |E|<=1",
}
EXHAUSTIVE = {"quick": True, "thorough": True}
ASSUMPTIONS = ["P(evidence)>0 decided by the reference", "virtual evidence needs string variable names (library builds '__'+name)"]

HEUR = ["greedy", "MinFill", "MinNeighbors", "MinWeight", "WeightedMinFill", None]
CARDVECS3 = [(2, 3, 2), (3, 2, 2), (1, 2, 3)]


def _labelings(n, tier, small):
    """list of labeling descriptors: default first, then single deviations"""
    labs = [("str", None, "def")]
    if small:
        return labs
    perms = list(permutations(range(n)))
    for p in perms[1:]:
        labs.append(("str", list(p), "def"))
    for p in perms:
        labs.append(("int", list(p), "def"))
    for s in ("str", "rot", "shift", "tuple", "mixed"):
        labs.append(("str", None, s))
    labs.append(("multi", None, "def"))
    labs.append(("tuple", None, "str"))
    if tier == "thorough":
        for p in perms[1:]:
            for s in ("str", "rot", "mixed"):
                labs.append(("int", list(p), s))
    return labs


def groups(tier, seed):
    out = []
    d3 = all_dags(3)
    k = 2 if tier == "quick" else 3
    for n in (1, 2, 3):
        # quick: isomorphism classes (relabelings are a separate axis below); thorough: every labelled DAG
        for d in core_descs(n, iso_classes(n) if tier == "quick" else all_dags(n), k):
            out.append({"bn": d, "lab": ["str", None, "def"], "virt": 0, "qmax": None, "emax": None})
    # families with cardinalities, virtual evidence
    fams = ((1, 2, 1),) if tier == "quick" else ((0, 0, 0), (1, 1, 0), (1, 2, 1), (2, 1, 2), (0, 1, 2), (1, 3, 4))
    cvs = CARDVECS3 if tier == "quick" else CARDVECS3 + [(2, 2, 2), (3, 3, 2), (2, 1, 2)]
    for d in family_descs(3, d3, cvs, fams=fams, fps=(0,)):
        out.append({"bn": d, "lab": ["str", None, "def"], "virt": 1, "qmax": None, "emax": None})
    # labeling deviations
    # relabelings of the 6 isomorphism classes realise every labelled DAG on 3 nodes
    dev_models = list(family_descs(3, iso_classes(3) if tier == "quick" else d3, [(2, 3, 2)], fams=((1, 2, 1),) if tier == "quick" else ((1, 2, 1), (2, 1, 3)), fps=(seed % 5,) if tier == "thorough" else ()))
    for d in dev_models:
        for lab in _labelings(3, tier, False)[1:]:
            out.append({"bn": d, "lab": list(lab), "virt": 1 if lab[0] in ("str", "multi") else 0, "qmax": None, "emax": None})
    # latent subsets (pruning must keep latent ancestors): every iso class x every latent subset of size 1-2
    for d in family_descs(3, iso_classes(3) if tier == "quick" else d3, [(2, 3, 2)], fams=((1, 2, 1),), fps=(0,)):
        for lat in ([0], [1], [2], [0, 1], [0, 2], [1, 2]):
            out.append({"bn": d, "lab": ["str", None, "str"], "virt": 0, "qmax": None, "emax": None, "latents": lat})
    for d in family_descs(4, iso_classes(4), [(2, 2, 2, 2)], fams=((1, 2, 1),), fps=()):
        for lat in ([0], [3], [1, 2]):
            out.append({"bn": d, "lab": ["str", None, "def"], "virt": 0, "qmax": 1, "emax": 1, "latents": lat})
    # 4 nodes
    d4 = iso_classes(4) if tier == "quick" else all_dags(4)
    for d in family_descs(4, d4, [(2, 2, 2, 2)] if tier == "quick" else [(2, 2, 2, 2), (2, 3, 2, 2)], fams=((1, 2, 1), (0, 0, 0)), fps=()):
        out.append({"bn": d, "lab": ["str", None, "def"], "virt": 0, "qmax": 2, "emax": 2})
    if tier == "thorough":
        for d in family_descs(4, iso_classes(4), [(2, 2, 3, 2)], fams=((1, 2, 1),), fps=(0,)):
            for lab in (("int", [3, 1, 0, 2], "rot"), ("str", [2, 3, 1, 0], "str")):
                out.append({"bn": d, "lab": list(lab), "virt": 1 if lab[0] == "str" else 0, "qmax": 2, "emax": 2})
        # five nodes: the 302 isomorphism classes, cardinalities (2,3,2,2,3), |Q|<=2, |E|<=1
        for d in family_descs(5, iso_classes(5), [(2, 3, 2, 2, 3)], fams=((1, 2, 1),), fps=()):
            out.append({"bn": d, "lab": ["str", None, "str"], "virt": 0, "qmax": 2, "emax": 1})
    return out


def _orders(n, q, e, full):
    rest = [v for v in range(n) if v not in q and v not in [x for x, _ in e]]
    exp = [list(p) for p in permutations(rest)] if len(rest) >= 1 else []
    if full or len(rest) >= 2:
        return HEUR + exp[:6]
    # heuristics cannot differ when at most one variable is eliminated (deviation bound: quick tier)
    if len(rest) == 1:
        return ["greedy", "MinFill", "WeightedMinFill", None] + exp
    return ["greedy", "MinFill", None]


def _virt_arg(lab, ref, virt):
    from pgmpy.factors.discrete import TabularCPD

    out = []
    for v, lik in virt:
        out.append(TabularCPD(lab.name(v), ref.card[v], [[x] for x in lik], state_names={lab.name(v): list(lab.states[v])}))
    return out


def ask(model, lab, ref, q, e, virt, order, joint, via_markov=False):
    from pgmpy.inference import VariableElimination

    m = model.to_markov_model() if via_markov else model
    ve = VariableElimination(m)
    kw = {}
    if virt:
        kw["virtual_evidence"] = _virt_arg(lab, ref, virt)
    eo = order
    if isinstance(order, list):
        eo = [lab.name(v) for v in order]
    ev = {lab.name(v): lab.state(v, s) for v, s in e}
    return ve.query([lab.name(v) for v in q], evidence=ev if ev else None, elimination_order=eo, joint=joint,
                    show_progress=False, **kw)


def check_answer(res, post, q, lab, joint, normalise=False):
    """returns None or a description"""
    if joint:
        if normalise:
            res = res.normalize(inplace=False)
        obs = named_table(res)
        exp = ref_named(post, lab)
        d = cmp_named(obs, exp)
        if d is None:
            for v in q:
                if list(res.state_names[lab.name(v)]) != list(lab.states[v]):
                    d = f"state names of {lab.name(v)!r}"
        return d, tbl_json(obs)
    if set(res.keys()) != {lab.name(v) for v in q}:
        return f"keys {list(res.keys())}", None
    for v in q:
        r = res[lab.name(v)]
        if normalise:
            r = r.normalize(inplace=False)
        m = post.marginalize([x for x in q if x != v])
        d = cmp_named(named_table(r), ref_named(m, lab))
        if d is not None:
            return f"[{lab.name(v)!r}] " + d, tbl_json(named_table(r))
    return None, None


def run_group(g, tier):
    st = Stats()
    ref = bn_from_desc(g["bn"])
    lab = Labeling(ref.n, ref.card, g["lab"][0], g["lab"][1], g["lab"][2])
    joint = ref.joint()
    model = make_bn(ref, lab, latents=g.get("latents", ()))
    model.check_model()
    st.states += 1
    prior = {}
    first = True
    for qu in questions(ref, joint, g["qmax"], g["emax"], True, g["virt"]):
        q, e, virt, post = qu["q"], qu["e"], qu["virt"], qu["post"]
        key = (tuple(q), tuple(sorted(e)), str(virt))
        tq = tuple(q)
        if tq not in prior:
            prior[tq] = joint.marginalize([v for v in range(ref.n) if v not in q]).reorder(q)
        if post.table != prior[tq].table:
            st.nt(key)
        for order in (_orders(ref.n, q, e, tier == "thorough") if (not virt or tier == "thorough") else ["greedy", "MinFill", None]):
            for jt in (True, False):
                case = {"bn": g["bn"], "lab": g["lab"], "q": q, "e": [list(x) for x in e], "virt": [[v, list(l)] for v, l in virt],
                        "order": order, "joint": jt, "mn": False, "latents": g.get("latents", [])}
                _one(st, model, lab, ref, case, post)
        # no-pruning path through the Markov network (normalised by the harness)
        if not virt:
            for order in ("greedy", "MinFill"):
                case = {"bn": g["bn"], "lab": g["lab"], "q": q, "e": [list(x) for x in e], "virt": [],
                        "order": order, "joint": True, "mn": True}
                _one(st, model, lab, ref, case, post)
        if first:
            st.sample({"bn": g["bn"], "lab": g["lab"], "q": q, "e": e, "virt": str(virt), "orders": [str(o) for o in _orders(ref.n, q, e, True)]})
            first = False
    _state_prob(st, model, lab, ref, joint, g)
    return st


def _one(st, model, lab, ref, case, post=None):
    q, e, virt = case["q"], [tuple(x) for x in case["e"]], [(v, tuple(l)) for v, l in case["virt"]]
    if post is None:
        from mc.ref.discrete import posterior

        post, _ = posterior(ref.joint(), q, dict(e), [(v, [F(x) for x in l]) for v, l in virt])
    site = "MarkovNetwork-VE.query" if case["mn"] else "VE.query"
    st.evals += 1
    st.transitions += 1
    try:
        res = ask(model, lab, ref, q, e, virt, case["order"], case["joint"], case["mn"])
    except Exception as ex:
        st.violation(site, "exception", case, repr(ex)[:300], None)
        return
    st.compared += 1
    d, obs = check_answer(res, post, q, lab, case["joint"], normalise=case["mn"])
    if d is not None:
        st.violation(site, "wrong-posterior", case, obs, d)
    else:
        st.outcome(tuple(sorted(post.table.values())))


def _state_prob(st, model, lab, ref, joint, g):
    """get_state_probability for every partial assignment; predict_probability on one-row frames"""
    from itertools import product

    from mc.gen.dags import subsets

    for sub in subsets(range(ref.n)):
        if not sub:
            continue
        for states in product(*[range(ref.card[v]) for v in sub]):
            ev = dict(zip(sub, states))
            exp = joint.reduce(ev).total()
            case = {"bn": g["bn"], "lab": g["lab"], "sp": [[v, s] for v, s in ev.items()], "latents": g.get("latents", [])}
            st.evals += 1
            st.transitions += 1
            try:
                got = float(model.get_state_probability(lab.ev(ev)))
            except Exception as ex:
                st.violation("get_state_probability", "exception", case, repr(ex)[:300], None)
                continue
            st.compared += 1
            if abs(got - float(exp)) > build.DEFAULT_TOL:
                st.violation("get_state_probability", "wrong-value", case, got, float(exp))
    if g["lab"][0] in ("str", "multi") and ref.n >= 2:
        import pandas as pd

        for sub in subsets(range(ref.n)):
            if not sub or len(sub) == ref.n:
                continue
            rows = []
            for states in product(*[range(ref.card[v]) for v in sub]):
                ev = dict(zip(sub, states))
                if joint.reduce(ev).total() > 0:
                    rows.append(ev)
            if not rows:
                continue
            case = {"bn": g["bn"], "lab": g["lab"], "pp": list(sub), "latents": g.get("latents", [])}
            df = pd.DataFrame([[lab.state(v, ev[v]) for v in sub] for ev in rows], columns=[lab.name(v) for v in sub])
            if g["lab"][2] in ("tuple", "mixed"):
                continue
            st.evals += 1
            st.transitions += 1
            try:
                out = model.predict_probability(df)
            except Exception as ex:
                st.violation("predict_probability", "exception", case, repr(ex)[:300], None)
                continue
            miss = [v for v in range(ref.n) if v not in sub]
            bad = None
            for i, ev in enumerate(rows):
                pj = joint.reduce(ev).normalize()
                for v in miss:
                    m = pj.marginalize([x for x in miss if x != v])
                    for s in range(ref.card[v]):
                        col = lab.name(v) + "_" + str(lab.state(v, s))
                        st.compared += 1
                        if col not in out.columns or abs(float(out[col].iloc[i]) - float(m.table[(s,)])) > build.DEFAULT_TOL:
                            bad = (col, i, float(out[col].iloc[i]) if col in out.columns else None, float(m.table[(s,)]))
            if bad:
                st.violation("predict_probability", "wrong-value", case, bad[2], {"col": bad[0], "row": bad[1], "exp": bad[3]})


def replay(case):
    st = Stats()
    ref = bn_from_desc(case["bn"])
    lab = Labeling(ref.n, ref.card, case["lab"][0], case["lab"][1], case["lab"][2])
    model = make_bn(ref, lab, latents=case.get("latents", ()))
    if "q" in case:
        _one(st, model, lab, ref, case)
    else:
        g = {"bn": case["bn"], "lab": case["lab"], "latents": case.get("latents", [])}
        _state_prob(st, model, lab, ref, ref.joint(), g)
        key = "sp" if "sp" in case else "pp"
        st.violations = [v for v in st.violations if v["case"].get(key) == case[key]]
    return st.violations
