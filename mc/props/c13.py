"""C13: interventions follow the truncated factorisation (E1)."""
from fractions import Fraction as F
from itertools import combinations, permutations, product

import numpy as np

from mc.build import Labeling, cmp_named, make_bn, named_table, ref_named
from mc.gen.dags import all_dags, iso_classes, subsets
from mc.gen.tables import bn_from_desc
from mc.ref.discrete import RefFactor
from mc.ref.graphs import G
from mc.stats import Stats

EXPLORER = "E1"
RULE = ("E1: (a) do(): every DAG on <=3 nodes (4 in thorough) x every do-set x inplace for BayesianNetwork.do and DAG.do: exactly the "
        "incoming edges of do-nodes removed, their CPDs parent-free and valid, other CPDs and the source untouched. (b) "
        "CausalInference.query on strictly positive fingerprint networks: every do-set of size 1-2 (parent-child pairs "
        "included) x every do state x every query set disjoint from do and pa(do) x back ends {ve,bp} x default adjustment "
        "set and every valid back-door set x latent subsets, vs the truncated factorisation. (c) criteria on every DAG x every "
        "ordered (X,Y) x every Z among non-descendants: is_valid_backdoor_adjustment_set, is_valid_adjustment_set, "
        "get_all_backdoor_adjustment_sets, get_minimal_adjustment_set, is_valid_frontdoor_adjustment_set, "
        "get_all_frontdoor_adjustment_sets under all relabelings, vs explicit path enumeration. non-trivial = distinct "
        "(graph, X, Y) with >=1 back-door path; distinct (model, do, query) where P(y|do(x)) != P(y|x)")
BOUNDS = {"quick": "(a) n<=3; (b) all 25 DAGs n=3 + 31 iso classes n=4 (|do|=1) ; (c) all DAGs n<=4 (543) under identity + 2 relabelings (rotating with VERIF_SEED) and the 302 isomorphism classes of 5-node DAGs under 2 relabelings",
          "thorough": "(a) n<=4 and the 302 classes n=5, (b) all DAGs n=4 (|do|<=2) and the 302 classes n=5 (|do|=1), (c) all 24 relabelings n<=4; 5-node classes under 12 relabelings and all 29281 labelled 5-node DAGs under the identity; criteria on all 32768 order-respecting 6-node DAGs"}
EXHAUSTIVE = {"quick": True, "thorough": True}
ASSUMPTIONS = ["strictly positive CPDs (the adjustment formula conditions on (x,z))", "query sets disjoint from the do-set and its parents (the engine refuses others)",
               "front-door verdicts are compared only when a directed path X->..->Y exists"]

NAMES = ["A", "B", "C", "D", "E", "G"]


def groups(tier, seed):
    out = []
    for n in ((1, 2, 3) if tier == "quick" else (1, 2, 3, 4)):
        dags = all_dags(n)
        for i in range(0, len(dags), 15):
            out.append({"part": "do", "n": n, "lo": i, "hi": min(i + 15, len(dags))})
    for n in (2, 3):
        for e in all_dags(n):
            out.append({"part": "query", "n": n, "edges": [list(x) for x in e], "dmax": 2})
    for e in (iso_classes(4) if tier == "quick" else all_dags(4)):
        out.append({"part": "query", "n": 4, "edges": [list(x) for x in e], "dmax": 1 if tier == "quick" else 2})
    for n in (2, 3, 4):
        dags = all_dags(n)
        for i in range(0, len(dags), 12):
            out.append({"part": "crit", "n": n, "lo": i, "hi": min(i + 12, len(dags)), "rot": seed})
    # criteria on the 302 isomorphism classes of 5-node DAGs (a descendant at depth 2 on a back-door path needs 5 nodes)
    iso5 = iso_classes(5)
    for i in range(0, len(iso5), 10):
        out.append({"part": "crit5", "dags": [[list(e) for e in d] for d in iso5[i:i + 10]], "rot": seed})
    if tier == "thorough":
        # 5 nodes: do() and single interventions on every isomorphism class, criteria on every labelled DAG
        for i in range(0, len(iso5), 10):
            out.append({"part": "do5", "dags": [[list(e) for e in d] for d in iso5[i:i + 10]]})
        for e in iso5:
            out.append({"part": "query", "n": 5, "edges": [list(x) for x in e], "dmax": 1})
        n5 = len(all_dags(5))
        for i in range(0, n5, 60):
            out.append({"part": "crit", "n": 5, "lo": i, "hi": min(i + 60, n5), "rot": seed, "identity": True})
        # criteria on six nodes: every DAG whose edges respect 0<1<..<5 (2^15 edge sets)
        for i in range(0, 1 << 15, 32):
            out.append({"part": "crit6", "lo": i, "hi": i + 32})
    return out


def run_group(g, tier):
    st = Stats()
    if g["part"] == "do":
        dags = all_dags(g["n"])
        for i in range(g["lo"], g["hi"]):
            _do(st, g["n"], dags[i])
    elif g["part"] == "query":
        _query(st, g)
    elif g["part"] == "crit6":
        p6 = list(combinations(range(6), 2))
        for code in range(g["lo"], g["hi"]):
            _crit(st, 6, [p for i, p in enumerate(p6) if code >> i & 1], list(range(6)))
    elif g["part"] == "do5":
        for d in g["dags"]:
            _do(st, 5, [tuple(e) for e in d])
    elif g["part"] == "crit5":
        perms = list(permutations(range(5)))
        for d in g["dags"]:
            for p in dict.fromkeys([perms[0], perms[(7 + 13 * g["rot"]) % 120]] if tier == "quick" else perms[::10]):
                _crit(st, 5, [tuple(e) for e in d], list(p))
    else:
        dags = all_dags(g["n"])
        perms = list(permutations(range(g["n"])))
        pick = [perms[0], perms[(1 + g["rot"]) % len(perms)], perms[(len(perms) // 2 + g["rot"]) % len(perms)]] if tier == "quick" else perms
        if g.get("identity"):
            pick = [perms[0]]
        for i in range(g["lo"], g["hi"]):
            for p in dict.fromkeys(pick):
                _crit(st, g["n"], dags[i], list(p))
    return st


def replay(case):
    st = Stats()
    if case["part"] == "do":
        _do(st, case["n"], [tuple(e) for e in case["edges"]])
    elif case["part"] == "query":
        _query(st, case["g"])
    else:
        _crit(st, case["n"], [tuple(e) for e in case["edges"]], case["perm"])
    keys = ("site", "do", "q", "adj", "algo", "X", "Y", "Z", "inplace", "cls", "latents")
    return [v for v in st.violations if all(v["case"].get(k) == case.get(k) for k in keys)][:5]


# ------------------------------------------------------------------ (a) do()
def _do(st, n, edges):
    from pgmpy.base import DAG

    ref = bn_from_desc({"n": n, "edges": [list(e) for e in edges], "card": [2, 3, 2, 2, 2][:n], "cols": {"fp": 0}})
    lab = Labeling(n, ref.card, "str", None, "str")
    st.states += 1
    for xs in subsets(range(n)):
        if not xs:
            continue
        exp_edges = {(a, b) for a, b in edges if b not in xs}
        for cls in ("BN", "DAG"):
            for inplace in (False, True):
                for single in ((False, True) if len(xs) == 1 else (False,)):
                    case = {"part": "do", "n": n, "edges": [list(e) for e in edges], "site": cls + ".do", "do": list(xs), "inplace": inplace, "cls": cls + ("-single" if single else "")}
                    st.evals += 1
                    st.transitions += 1
                    if edges:
                        st.nt((tuple(edges), xs))
                    try:
                        if cls == "BN":
                            m = make_bn(ref, lab)
                        else:
                            m = DAG()
                            m.add_nodes_from([lab.name(v) for v in range(n)])
                            m.add_edges_from([(lab.name(a), lab.name(b)) for a, b in edges])
                        before = _snap(m)
                        arg = lab.name(xs[0]) if single else [lab.name(x) for x in xs]
                        r = m.do(arg, inplace=inplace)
                        res = m if inplace else r
                    except Exception as ex:
                        st.violation(cls + ".do", "exception", case, repr(ex)[:200])
                        continue
                    st.compared += 1
                    got_e = {(lab.id[a], lab.id[b]) for a, b in res.edges()}
                    bad = None
                    if got_e != exp_edges or {lab.id[x] for x in res.nodes()} != set(range(n)):
                        bad = f"edges {sorted(got_e)} != {sorted(exp_edges)}"
                    elif not inplace and _snap(m) != before:
                        bad = "source model changed by out-of-place do"
                    elif cls == "BN":
                        for v in range(n):
                            c = res.get_cpds(lab.name(v))
                            if v in xs:
                                if list(c.variables) != [lab.name(v)] or not c.is_valid_cpd():
                                    bad = f"CPD of do-node {lab.name(v)} is not a valid parent-free CPD: {c.variables}"
                            else:
                                d = cmp_named(named_table(c), ref_named(ref.cpd_factor(v), lab))
                                if d:
                                    bad = f"CPD of {lab.name(v)} changed: {d}"
                        try:
                            res.check_model()
                        except Exception as ex:
                            bad = bad or "result fails check_model: " + repr(ex)[:100]
                    if bad:
                        st.violation(cls + ".do", "wrong-surgery", case, None, bad)
                    else:
                        st.outcome(len(exp_edges))


def _snap(m):
    out = (sorted(map(str, m.nodes())), sorted((str(a), str(b)) for a, b in m.edges()))
    if hasattr(m, "cpds"):
        out += (sorted((str(c.variable), [str(v) for v in c.variables], np.asarray(c.values, dtype=float).round(12).tolist()) for c in m.cpds),)
    return out


# ------------------------------------------------------------------ (b) CausalInference.query
def ref_do(ref, joint_vars, xs_states, q):
    """P(q | do(xs)) by the truncated factorisation: product of all CPDs but the intervened ones, at X = x"""
    n = ref.n
    t = {}
    others = [v for v in range(n) if v not in xs_states]
    for k in product(*[range(ref.card[v]) for v in others]):
        a = dict(zip(others, k))
        a.update(xs_states)
        w = F(1)
        for v in others:
            w *= ref.p(v, a[v], a)
        key = tuple(a[v] for v in q)
        t[key] = t.get(key, F(0)) + w
    return RefFactor(q, ref.card, t)


def _query(st, g):
    from pgmpy.inference import CausalInference

    n, edges = g["n"], [tuple(e) for e in g["edges"]]
    ref = bn_from_desc({"n": n, "edges": g["edges"], "card": [2, 3, 2, 2, 2][:n], "cols": {"fp": 0}})
    lab = Labeling(n, ref.card, "str", None, "str")
    gr = G(n, edges)
    from mc.gen.dags import is_connected

    moral_conn = is_connected(n, [tuple(e) for e in gr.moral_edges()])
    st.states += 1
    lat_sets = [()] + ([(v,) for v in range(n)] if n == 3 else [])
    for lat in lat_sets:
        model = make_bn(ref, lab, latents=lat)
        for xs in subsets(range(n), g["dmax"]):
            if not xs or set(xs) & set(lat):
                continue
            pax = set().union(*[gr.pa[x] for x in xs])
            qs_all = [v for v in range(n) if v not in xs and v not in pax and v not in lat]
            if not qs_all:
                continue
            for xstates in product(*[range(ref.card[x]) for x in xs]):
                xd = dict(zip(xs, xstates))
                for q in subsets(qs_all, 2):
                    if not q:
                        continue
                    exp = ref_do(ref, None, xd, list(q))
                    # adjustment sets: default (parents) and, for single do with single target, every valid back-door set
                    adjs = [None]
                    if len(xs) == 1 and len(q) == 1 and not lat:
                        x, y = xs[0], q[0]
                        cand = [v for v in range(n) if v not in (x, y) and v not in gr.desc(x)]
                        for Z in subsets(cand):
                            if backdoor_ok(gr, x, y, set(Z)):
                                adjs.append(list(Z))
                    for adj in adjs:
                        for algo in ("ve", "bp"):
                            if algo == "bp" and (adj is not None or lat or not moral_conn):
                                continue  # belief propagation rejects disconnected models by design
                            case = {"part": "query", "g": g, "site": "CausalInference.query", "do": [list(x) for x in xd.items()], "q": list(q), "adj": adj, "algo": algo, "latents": list(lat)}
                            st.evals += 1
                            st.transitions += 1
                            try:
                                ci = CausalInference(model)
                                kw = {} if adj is None else {"adjustment_set": {lab.name(v) for v in adj}}
                                res = ci.query([lab.name(v) for v in q], do={lab.name(x): lab.state(x, s) for x, s in xd.items()}, inference_algo=algo, show_progress=False, **kw)
                            except Exception as ex:
                                msg = repr(ex)[:200]
                                if "Not all parents of do variables are observed" in msg and pax & set(lat):
                                    st.bump("refused:latent-parent")
                                    continue
                                st.violation("CausalInference.query", "exception", case, msg)
                                continue
                            st.compared += 1
                            d = cmp_named(named_table(res), ref_named(exp, lab))
                            if d:
                                dflt = set().union(*[gr.pa[x] for x in xs]) - set(xs)
                                st.violation("CausalInference.query", "wrong-distribution", case, None, d,
                                             detail={"multi_do": len(xs) > 1, "do_contains_parent_child": any((a, b) in gr.edges for a in xs for b in xs),
                                                     "default_adjustment_contains_descendant_of_do": adj is None and any(z in gr.desc(x) for z in dflt for x in xs)})
                            else:
                                st.outcome(tuple(sorted(exp.table.values())))
                            if len(xs) == 1:
                                st.nt((lat, xs, xstates, q))
    if len(st.samples) < 1:
        st.sample({"model": g})


# ------------------------------------------------------------------ (c) criteria by explicit path enumeration
def backdoor_paths_blocked(gr, x, y, Z):
    """every path between x and y that starts with an arrow INTO x is blocked by Z"""
    for t in gr.trails(x, y):
        if len(t) >= 2 and (t[1], t[0]) in gr.edges:
            if gr.active(t, set(Z)):
                return False
    return True


def backdoor_ok(gr, x, y, Z):
    return not (set(Z) & (gr.desc(x) - {x})) and x not in Z and y not in Z and backdoor_paths_blocked(gr, x, y, Z)


def directed_paths(gr, x, y):
    return [t for t in gr.trails(x, y) if all((t[i], t[i + 1]) in gr.edges for i in range(len(t) - 1))]


def frontdoor_ok(gr, x, y, Z):
    Z = set(Z)
    dp = directed_paths(gr, x, y)
    if any(not (set(p[1:-1]) & Z) for p in dp):
        return False
    for z in Z:
        if not backdoor_paths_blocked(gr, x, z, set()):
            return False
    for z in Z:
        if not backdoor_paths_blocked(gr, z, y, {x}):
            return False
    return True


def _crit(st, n, edges, perm):
    from pgmpy.inference import CausalInference
    from pgmpy.models import BayesianNetwork

    names = [NAMES[perm[v]] for v in range(n)]
    idx = {nm: v for v, nm in enumerate(names)}
    gr = G(n, edges)
    m = BayesianNetwork()
    m.add_nodes_from(names)
    m.add_edges_from([(names[a], names[b]) for a, b in edges])
    try:
        ci = CausalInference(m)
    except Exception as ex:
        st.violation("CausalInference", "exception", {"part": "crit", "n": n, "edges": [list(e) for e in edges], "perm": perm, "site": "CausalInference"}, repr(ex)[:200])
        return
    st.states += 1
    for x, y in permutations(range(n), 2):
        base = {"part": "crit", "n": n, "edges": [list(e) for e in edges], "perm": perm, "X": x, "Y": y}
        bd_exists = any(len(t) >= 2 and (t[1], t[0]) in gr.edges for t in gr.trails(x, y))
        if bd_exists:
            st.nt((tuple(edges), tuple(perm), x, y))
        cand = [v for v in range(n) if v not in (x, y) and v not in gr.desc(x)]
        for Z in subsets(cand):
            exp = backdoor_paths_blocked(gr, x, y, set(Z))
            for site, fn in (("is_valid_backdoor_adjustment_set", lambda: ci.is_valid_backdoor_adjustment_set(names[x], names[y], [names[z] for z in Z])),
                             ("is_valid_adjustment_set", lambda: ci.is_valid_adjustment_set([names[x]], [names[y]], [names[z] for z in Z]))):
                case = dict(base, site=site, Z=list(Z))
                st.evals += 1
                st.transitions += 1
                try:
                    got = bool(fn())
                except Exception as ex:
                    st.violation(site, "exception", case, repr(ex)[:200])
                    continue
                st.compared += 1
                if got != exp:
                    st.violation(site, "wrong-verdict", case, got, exp)
        # enumerated back-door sets
        case = dict(base, site="get_all_backdoor_adjustment_sets", Z=None)
        st.evals += 1
        try:
            sets = ci.get_all_backdoor_adjustment_sets(names[x], names[y])
            for S in sets:
                Zs = {idx[s] for s in S}
                st.compared += 1
                if not backdoor_ok(gr, x, y, Zs):
                    st.violation("get_all_backdoor_adjustment_sets", "invalid-set-returned", case, sorted(Zs), None)
        except ValueError as ex:
            # documented: raises when no valid set exists
            st.compared += 1
            if any(backdoor_ok(gr, x, y, set(Z)) for Z in subsets(cand)):
                st.violation("get_all_backdoor_adjustment_sets", "valid-set-exists-but-none-found", case, repr(ex)[:120], None)
        except Exception as ex:
            st.violation("get_all_backdoor_adjustment_sets", "exception", case, repr(ex)[:200])
        # minimal adjustment set (only defined for non-adjacent... the library calls minimal_dseparator on the proper back-door graph)
        case = dict(base, site="get_minimal_adjustment_set", Z=None)
        st.evals += 1
        try:
            S = ci.get_minimal_adjustment_set(names[x], names[y])
            st.compared += 1
            if S is not None:
                Zs = {idx[s] for s in S}
                if not backdoor_ok(gr, x, y, Zs):
                    st.violation("get_minimal_adjustment_set", "invalid-set-returned", case, sorted(Zs), "contains a descendant of X" if Zs & gr.desc(x) else "does not block")
        except ValueError:
            pass  # adjacent in the proper back-door graph: no separator possible (documented by minimal_dseparator)
        except Exception as ex:
            st.violation("get_minimal_adjustment_set", "exception", case, repr(ex)[:200])
        # front-door
        if directed_paths(gr, x, y):
            for Z in subsets([v for v in range(n) if v not in (x, y)]):
                exp = frontdoor_ok(gr, x, y, Z)
                case = dict(base, site="is_valid_frontdoor_adjustment_set", Z=list(Z))
                st.evals += 1
                st.transitions += 1
                try:
                    got = bool(ci.is_valid_frontdoor_adjustment_set(names[x], names[y], [names[z] for z in Z]))
                except Exception as ex:
                    st.violation("is_valid_frontdoor_adjustment_set", "exception", case, repr(ex)[:200])
                    continue
                st.compared += 1
                if got != exp:
                    st.violation("is_valid_frontdoor_adjustment_set", "wrong-verdict", case, got, exp)
            case = dict(base, site="get_all_frontdoor_adjustment_sets", Z=None)
            st.evals += 1
            try:
                for S in ci.get_all_frontdoor_adjustment_sets(names[x], names[y]):
                    st.compared += 1
                    if not frontdoor_ok(gr, x, y, {idx[s] for s in S}):
                        st.violation("get_all_frontdoor_adjustment_sets", "invalid-set-returned", case, sorted(idx[s] for s in S), None)
            except Exception as ex:
                st.violation("get_all_frontdoor_adjustment_sets", "exception", case, repr(ex)[:200])
