#!/bin/bash
# trymut.sh <mutation dir with patch.diff + demo.py> <property ids...>
# applies the patch to /repo, runs the demo and the quick checks, reverts. Prints a summary.
set -u
D=$1; shift
cd /repo || exit 2
if [ -n "$(git status --porcelain --untracked-files=no)" ]; then echo "repo dirty"; exit 2; fi
echo "== clean demo:"; (cd /repo && timeout 600 /venv/bin/python $D/demo.py >/tmp/demo_clean.log 2>&1; echo "exit=$?")
git apply $D/patch.diff || { echo "patch does not apply"; exit 2; }
echo "== mutated demo:"; (cd /repo && timeout 600 /venv/bin/python $D/demo.py >/tmp/demo_mut.log 2>&1; echo "exit=$?"; tail -3 /tmp/demo_mut.log)
for P in "$@"; do
  echo "== check $P quick on mutated tree:"
  (cd /verif && VERIF_EVIDENCE_DIR=/tmp/mutevidence VERIF_REPLAY_DIR=/tmp/mutreplays ./check $P quick > /tmp/mut_$P.log 2>&1; echo "exit=$?"; grep -c "^VIOLATION" /tmp/mut_$P.log; grep -A1 "^VIOLATION" /tmp/mut_$P.log | grep site= | sed 's/case=.*//' | sort | uniq -c | head -8; tail -1 /tmp/mut_$P.log | cut -c1-200)
done
git -C /repo checkout -- . ; rm -f /repo/model.bif
echo "== reverted: $(git -C /repo status --porcelain --untracked-files=no | wc -l) dirty files"
