#!/bin/bash
# gen_regress.sh: for every "fix:" commit of /repo, evaluate in a scratch worktree with that ONE fix reverted, run the
# quick check of the property it belongs to (from KNOWN_FINDINGS.json), keep the first replay artefact as
# replays/regress/<Fid>.json and record whether the check detects the original defect. Does not touch /repo.
cd /verif || exit 2
W=/tmp/wt_regress
OUT=/verif/seeded/REVERTED_FIXES.md
echo "| finding | property | fix commit | quick check on the tree with that fix reverted |" > $OUT
echo "|---|---|---|---|" >> $OUT
/venv/bin/python - <<'PY' > /tmp/fixed_list.txt
import json
for f in json.load(open('/verif/KNOWN_FINDINGS.json'))['findings']:
    if f.get('status')=='fixed': print(f['id'], f['property'], f['commit'][:70].replace(' ','_'))
PY
while read FID PROP MSG; do
  M=$(echo "$MSG" | tr '_' ' ')
  C=$(git -C /repo log --format=%h --fixed-strings --grep="$M" | head -1)
  [ -z "$C" ] && { echo "| $FID | $PROP | ? | commit not found |" >> $OUT; continue; }
  git -C /repo worktree remove --force $W 2>/dev/null
  git -C /repo worktree add -q --detach $W HEAD
  if ! git -C /repo show $C | git -C $W apply -R 2>/dev/null; then echo "| $FID | $PROP | $C | revert does not apply cleanly |" >> $OUT; continue; fi
  rm -rf /tmp/regress_replays
  (cd /verif && VERIF_PGMPY_PATH=$W VERIF_REPLAY_DIR=/tmp/regress_replays timeout 1800 ./check $PROP quick > /tmp/regress_$FID.log 2>&1)
  RC=$?
  N=$(grep -c "^VIOLATION" /tmp/regress_$FID.log)
  F=$(ls /tmp/regress_replays/$PROP/*.json 2>/dev/null | head -1)
  if [ -n "$F" ]; then cp $F /verif/replays/regress/${FID}.json; fi
  echo "| $FID | $PROP | $C | exit=$RC, $N VIOLATION lines |" >> $OUT
done < /tmp/fixed_list.txt
git -C /repo worktree remove --force $W 2>/dev/null
cat $OUT
