#!/venv/bin/python
"""Run the pinned baseline in a checkout and report stable-pass tests that no longer pass.
usage: suite.py <checkout dir> [-n procs] [-k expr]"""
import json, os, subprocess, sys, tempfile
import xml.etree.ElementTree as ET

d = os.path.abspath(sys.argv[1])
n = "12"
extra = []
a = sys.argv[2:]
while a:
    if a[0] == "-n":
        n = a[1]; a = a[2:]
    else:
        extra.append(a[0]); a = a[1:]
base = json.load(open("/root/.vp/BASELINE.json"))
stable = set(base["stable_pass"])
out = tempfile.mktemp(suffix=".xml")
env = dict(os.environ); env.pop("PGMPY_VERIF", None); env["OMP_NUM_THREADS"] = "1"; env["MKL_NUM_THREADS"] = "1"
p = subprocess.run(["/venv/bin/python", "-m", "pytest", "-q", "-p", "no:cacheprovider", "--timeout=900", "-n", n, "--dist", "loadfile",
                    "--continue-on-collection-errors", "--junitxml=" + out] + extra, cwd=d, env=env, capture_output=True, text=True)
passed = set()
for tc in ET.parse(out).getroot().iter("testcase"):
    if not any(c.tag in ("failure", "error", "skipped") for c in tc):
        passed.add((tc.get("classname") or "") + "::" + (tc.get("name") or ""))
os.remove(out)
for junk in ("model.bif",):
    try: os.remove(os.path.join(d, junk))
    except OSError: pass
missing = sorted(stable - passed)
if missing and not extra:
    # re-run the files of the apparent regressions serially: many tests are flaky under parallel load
    files = []
    for m in missing:
        cls, name = m.split("::")
        parts = cls.split(".")
        k = max(i for i, x in enumerate(parts) if x.startswith("test_"))
        f = "/".join(parts[:k + 1]) + ".py"
        if f not in files:
            files.append(f)
    for attempt in (1, 2):
        if not files:
            break
        out2 = tempfile.mktemp(suffix=".xml")
        r = subprocess.run(["/venv/bin/python", "-m", "pytest", "-q", "-p", "no:cacheprovider", "--timeout=1800", "--junitxml=" + out2] + files,
                           cwd=d, env=env, capture_output=True, text=True)
        try:
            for tc in ET.parse(out2).getroot().iter("testcase"):
                if not any(c.tag in ("failure", "error", "skipped") for c in tc):
                    passed.add((tc.get("classname") or "") + "::" + (tc.get("name") or ""))
            os.remove(out2)
        except Exception as e:
            print("serial re-run failed", e, r.stdout[-500:], r.stderr[-500:])
        missing = sorted(stable - passed)
        files = sorted({"/".join(m.split("::")[0].split(".")[:max(i for i, x in enumerate(m.split("::")[0].split(".")) if x.startswith("test_")) + 1]) + ".py" for m in missing})
if extra:
    print("(partial run) passed:", len(passed))
print(f"stable_pass={len(stable)} passed_now={len(passed & stable)} regressions={len(missing) if not extra else 'n/a'}")
if not extra:
    for m in missing[:40]:
        print("REGRESSION", m)
    sys.exit(1 if missing else 0)
