#!/bin/bash
# Silence check: every quick check on the unchanged tree under several VERIF_SEED values.
# usage: tools/seeds.sh "<seeds>" [ids...]   (evidence and replays go to scratch dirs, /verif is not touched)
seeds=${1:-"1 2 3"}; shift
ids=${@:-C01 C02 C03 C04 C05 C06 C07 C08 C09 C10 C11 C12 C13 C14 C15 C16 C17 C18 C19 C20}
cd /verif
for s in $seeds; do for p in $ids; do
  t=$(date +%s)
  out=$(VERIF_SEED=$s VERIF_EVIDENCE_DIR=/tmp/seeds_evidence VERIF_REPLAY_DIR=/tmp/seeds_replays ./check $p quick 2>&1); rc=$?
  echo "seed=$s $p exit=$rc secs=$(( $(date +%s)-t )) viol=$(echo "$out" | grep -c '^VIOLATION') known=$(echo "$out" | grep -c '^KNOWN-FINDING') $(echo "$out" | tail -1 | cut -c1-200)"
  [ $rc -ne 0 ] && echo "$out" | grep -v KNOWN-FINDING | head -20
done; done
