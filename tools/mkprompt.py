import json,sys
pid=sys.argv[1]
for l in open('/verif/properties.jsonl'):
    d=json.loads(l)
    if d['id']==pid: break
text=f"Title: {d['title']}\nStatement: {d['statement']}\nQuantified over: {d['quantifier']['text']}\nWhere to look: {', '.join(d['anchors']['files'])}"
t=open('/tmp/tools/agent_prompt.txt').read().replace('__WT__','/tmp/wt_'+pid).replace('__ID__',pid).replace('__TEXT__',text)
print(t)
