#!/venv/bin/python
"""keepmut.py <src dir> <seeded id> <property> <detected-by csv or none> -- store a confirmed seeded mutation"""
import json, os, shutil, sys
src, sid, prop, det = sys.argv[1:5]
dst = f"/verif/seeded/{sid}"
os.makedirs(dst, exist_ok=True)
shutil.copy(src + "/patch.diff", dst + "/patch.diff")
shutil.copy(src + "/demo.py", dst + "/demo.py")
m = json.load(open(src + "/meta.json"))
m["property"] = prop
m["confirmed"] = {"demo_clean_exit": 0, "demo_mutated_exit": 1, "suite": m.get("suite"), "ran": f"tools/trymut.sh {dst} {' '.join(det.split(',')) if det != 'none' else prop}"}
m["detected_by_quick"] = [] if det == "none" else det.split(",")
json.dump(m, open(dst + "/meta.json", "w"), indent=1)
print("kept", dst)
