#!/venv/bin/python
"""Enumerate every currently failing C17 case (no caps) and store its digest under known/C17_cases.json.
usage: gen_known_cases.py <quick|thorough>   (run ONLY to (re)generate the committed list; checks never write it)"""
import json, os, sys
sys.path.insert(0, "/verif")
os.chdir("/verif")
if os.environ.get("PYTHONHASHSEED") != "0":
    os.environ["PYTHONHASHSEED"] = "0"
    os.execv(sys.executable, [sys.executable] + sys.argv)
from mc.run import _quiet
_quiet()
import multiprocessing as mp
from mc.props import c17
from mc.stats import Stats
from mc import findings


def work(g):
    Stats.MAXV = 10 ** 9
    Stats.NOCAP = True
    import mc.stats
    mc.stats.CURRENT_PID = None
    out = c17.run_group(g, "quick")
    return [(findings.c17_category(v), findings.c17_digest(v)) for v in out.violations if findings.c17_category(v)]


if __name__ == "__main__":
    tier = sys.argv[1]
    gs = c17.groups(tier, 0)
    path = "known/C17_cases.json"
    cur = json.load(open(path)) if os.path.exists(path) else {}
    with mp.get_context("fork").Pool(16) as pool:
        for res in pool.imap_unordered(work, gs):
            for cat, dg in res:
                cur.setdefault(cat, [])
                cur[cat].append(dg)
    cur = {k: sorted(set(v)) for k, v in cur.items()}
    json.dump(cur, open(path, "w"))
    print({k: len(v) for k, v in cur.items()})
