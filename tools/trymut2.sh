#!/bin/bash
# trymut2.sh <mutation dir> <property ids...> : like trymut.sh but in a scratch worktree of /repo HEAD (/tmp/wt_eval),
# selected through VERIF_PGMPY_PATH, so that /repo itself is not modified (used while long runs read /repo).
set -u
D=$1; shift
W=/tmp/wt_eval
git -C /repo worktree remove --force $W 2>/dev/null
git -C /repo worktree add -q --detach $W HEAD || exit 2
echo "== clean demo:"; (cd $W && timeout 900 /venv/bin/python $D/demo.py >/tmp/demo_clean.log 2>&1; echo "exit=$?")
git -C $W apply $D/patch.diff || { echo "patch does not apply"; git -C /repo worktree remove --force $W; exit 2; }
echo "== mutated demo:"; (cd $W && timeout 900 /venv/bin/python $D/demo.py >/tmp/demo_mut.log 2>&1; echo "exit=$?"; tail -2 /tmp/demo_mut.log | cut -c1-200)
for P in "$@"; do
  echo "== check $P quick on mutated tree:"
  (cd /verif && VERIF_PGMPY_PATH=$W VERIF_EVIDENCE_DIR=/tmp/mutevidence VERIF_REPLAY_DIR=/tmp/mutreplays ./check $P quick > /tmp/mut_$P.log 2>&1; echo "exit=$?"; grep -c "^VIOLATION" /tmp/mut_$P.log; grep -A1 "^VIOLATION" /tmp/mut_$P.log | grep site= | sed 's/case=.*//' | sort | uniq -c | head -6; tail -1 /tmp/mut_$P.log | cut -c1-200)
done
git -C /repo worktree remove --force $W
echo "== worktree removed"
