#!/venv/bin/python
"""For every fixed finding: evaluate in a scratch worktree (/tmp/wt_regress) with that ONE fix: commit reverted, run the
quick check of its property through VERIF_PGMPY_PATH (so /repo is untouched), keep the first replay artefact as
replays/regress/<Fid>.json and write seeded/REVERTED_FIXES.md (which check detects which original defect)."""
import glob, json, os, shutil, subprocess, sys

W = "/tmp/wt_regress"
only = set(sys.argv[1:])
subjects = subprocess.run(["git", "-C", "/repo", "log", "--format=%h\t%s"], capture_output=True, text=True).stdout.splitlines()
rows = []
prev = {}
out = "/verif/seeded/REVERTED_FIXES.md"
if os.path.exists(out):
    for l in open(out):
        p = [x.strip() for x in l.strip().strip("|").split("|")]
        if len(p) == 4 and p[0].startswith("F") and "exit=1" in p[3]:
            prev[p[0]] = p
for f in json.load(open("/verif/KNOWN_FINDINGS.json"))["findings"]:
    if f.get("status") != "fixed":
        continue
    fid, prop = f["id"], f["property"]
    if only and fid not in only:
        if fid in prev:
            rows.append(prev[fid])
        continue
    if not only and fid in prev:
        rows.append(prev[fid])
        continue
    c = [s.split("\t")[0] for s in subjects if s.split("\t")[1].startswith(f["commit"][:60])]
    if not c:
        rows.append([fid, prop, "?", "commit not found"])
        continue
    c = c[0]
    subprocess.run(["git", "-C", "/repo", "worktree", "remove", "--force", W], capture_output=True)
    subprocess.run(["git", "-C", "/repo", "worktree", "add", "-q", "--detach", W, "HEAD"], check=True)
    patch = subprocess.run(["git", "-C", "/repo", "show", c], capture_output=True, text=True).stdout
    r = subprocess.run(["git", "-C", W, "apply", "-R"], input=patch, text=True, capture_output=True)
    if r.returncode:
        rows.append([fid, prop, c, "revert does not apply cleanly (later fix touches the same lines)"])
        continue
    shutil.rmtree("/tmp/regress_replays", ignore_errors=True)
    env = dict(os.environ, VERIF_PGMPY_PATH=W, VERIF_REPLAY_DIR="/tmp/regress_replays", VERIF_EVIDENCE_DIR="/tmp/mutevidence")
    p = subprocess.run(["./check", prop, "quick"], cwd="/verif", env=env, capture_output=True, text=True, timeout=5400)
    tier = "quick"
    if p.returncode == 0:
        # not reached by the quick bounds: try the thorough tier
        tier = "thorough"
        p = subprocess.run(["./check", prop, "thorough"], cwd="/verif", env=env, capture_output=True, text=True, timeout=7200)
    n = sum(1 for l in p.stdout.splitlines() if l.startswith("VIOLATION"))
    fs = sorted(glob.glob(f"/tmp/regress_replays/{prop}/*.json"))
    if fs:
        shutil.copy(fs[0], f"/verif/replays/regress/{fid}.json")
    rows.append([fid, prop, c, f"{tier}: exit={p.returncode}, {n} VIOLATION lines"])
    print(rows[-1], flush=True)
subprocess.run(["git", "-C", "/repo", "worktree", "remove", "--force", W], capture_output=True)
with open(out, "w") as fh:
    fh.write("Each row: the quick check of the property, run on /repo HEAD with exactly that one fix: commit reverted (tools/gen_regress.py).\n\n")
    fh.write("| finding | property | fix commit | quick check with the fix reverted |\n|---|---|---|---|\n")
    for r in rows:
        fh.write("| " + " | ".join(r) + " |\n")
print(open(out).read())
